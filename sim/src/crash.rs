//! C04: crash images. A recorded run's mutation log is replayed up to every boundary (plus torn variants of
//! the last write); every image is booted by a fresh simulated server process and judged.

use crate::gen::{Case, Gen};
use crate::harness::{Harness, Opts, Violation};
use crate::model::Model;
use crate::ops::{IdRef, MsgSpec, Op, Part};
use crate::rt::{apply_event, classify, PathClass, Sim};
use crate::scen::{scratch_dir, RunOutput};
use crate::world::{StopKind, World};
use iggy::client::*;
use iggy::consumer::Consumer;
use iggy::messages::poll_messages::PollingStrategy;
use iggy::messages::send_messages::Partitioning;
use iggy::verif::FsEvent;
use std::collections::{BTreeMap, BTreeSet};
use std::path::{Path, PathBuf};

struct Checkpoint {
    /// length of the mutation log when the operation was invoked / when it had returned and settled
    fs_before: usize,
    fs_after: usize,
    model_after: Model,
}

fn copy_dir(from: &Path, to: &Path) -> std::io::Result<()> {
    std::fs::create_dir_all(to)?;
    for entry in std::fs::read_dir(from)? {
        let entry = entry?;
        let target = to.join(entry.file_name());
        if entry.file_type()?.is_dir() {
            copy_dir(&entry.path(), &target)?;
        } else {
            std::fs::copy(entry.path(), &target)?;
        }
    }
    Ok(())
}

/// Independent reader of a partition directory: the offsets of the stored batches that are completely
/// present in the log *and* have their index entry, as a prefix (segment by segment).
pub fn parse_partition(dir: &Path) -> Vec<(u64, u128, usize)> {
    let mut segments: Vec<(u64, PathBuf)> = Vec::new();
    if let Ok(rd) = std::fs::read_dir(dir) {
        for e in rd.flatten() {
            let p = e.path();
            if p.extension().map(|x| x == "log").unwrap_or(false) {
                if let Some(start) = p.file_stem().and_then(|s| s.to_str()).and_then(|s| s.parse::<u64>().ok()) {
                    segments.push((start, p));
                }
            }
        }
    }
    segments.sort();
    let mut out = Vec::new();
    for (_start, log_path) in segments {
        let Ok(log) = std::fs::read(&log_path) else { break };
        let index = std::fs::read(log_path.with_extension("index")).unwrap_or_default();
        let positions: BTreeSet<u32> = index.chunks_exact(16).map(|c| u32::from_le_bytes(c[4..8].try_into().unwrap())).collect();
        let mut at = 0usize;
        let mut broken = false;
        while at + 24 <= log.len() {
            let base = u64::from_le_bytes(log[at..at + 8].try_into().unwrap());
            let length = u32::from_le_bytes(log[at + 8..at + 12].try_into().unwrap()) as usize;
            if at + 24 + length > log.len() || !positions.contains(&(at as u32)) {
                broken = true;
                break;
            }
            // messages: [len u32][offset u64][state u8][timestamp u64][id u128][checksum u32][headers len u32][headers][payload]
            let mut p = at + 24;
            let end = at + 24 + length;
            let mut n = 0u64;
            while p + 4 <= end {
                let mlen = u32::from_le_bytes(log[p..p + 4].try_into().unwrap()) as usize;
                if p + 4 + mlen > end || mlen < 8 + 1 + 8 + 16 {
                    break;
                }
                let offset = u64::from_le_bytes(log[p + 4..p + 12].try_into().unwrap());
                let id = u128::from_le_bytes(log[p + 4 + 17..p + 4 + 33].try_into().unwrap());
                out.push((offset, id, mlen));
                let _ = base;
                n += 1;
                p += 4 + mlen;
            }
            let _ = n;
            at = end;
        }
        if broken || at != log.len() {
            break;
        }
    }
    out
}

pub fn run_crash(case: &Case) -> RunOutput {
    let mut out = RunOutput { seed: case.seed, prop: case.prop.clone(), ..Default::default() };
    // ---------------------------------------------------------------- phase 1: the recorded run
    let dir = scratch_dir(case.seed);
    let _ = std::fs::remove_dir_all(&dir);
    std::fs::create_dir_all(&dir).expect("scratch dir");
    crate::determinism::reset_hash_seeds();
    let sim = Sim::new(case.sim_config());
    let world = World::new(sim.clone(), dir.clone(), case.knobs.clone());
    let case_owned = case.clone();
    let w = world.clone();
    let recorded = sim.block_on(async move {
        let case = case_owned;
        let opts = Opts { settle_each: true, check_timestamps: false, props: ["C04"].into_iter().collect(), check_size_limit: false, message_cache: case.knobs.cache_enabled, encryption: false, http_arm: false, disk_faults: false };
        let mut h = Harness::new(w.clone(), opts, case.gen.clients.max(1));
        let mut checkpoints: Vec<Checkpoint> = Vec::new();
        let mut ops: Vec<Op> = Vec::new();
        if w.start().await.is_err() {
            return (h, checkpoints, ops, Some("first start failed".to_string()));
        }
        for c in 0..case.gen.clients.max(1) {
            if h.connect_client(c, true).await.is_err() {
                return (h, checkpoints, ops, Some("client cannot connect".into()));
            }
        }
        let all: Vec<Op> = if case.ops.is_empty() {
            Vec::new()
        } else {
            case.ops.clone()
        };
        let mut gen = Gen::new(case.seed, case.gen.clone());
        let total = if all.is_empty() { case.setup.len() + case.gen.ops as usize } else { case.setup.len() + all.len() };
        for i in 0..total {
            if h.fatal {
                break;
            }
            let op = if i < case.setup.len() {
                case.setup[i].clone()
            } else if all.is_empty() {
                gen.next(&h.model)
            } else {
                all[i - case.setup.len()].clone()
            };
            if i >= case.setup.len() {
                ops.push(op.clone());
            }
            let fs_before = h.sim.fs_log_len();
            h.step(&op).await;
            h.sim.settle().await;
            checkpoints.push(Checkpoint { fs_before, fs_after: h.sim.fs_log_len(), model_after: h.model.clone() });
        }
        (h, checkpoints, ops, None)
    });
    let (h, checkpoints, ops, error) = match recorded {
        Ok(x) => x,
        Err(crate::rt::SimStop::MainPanicked(message)) => {
            crate::scen::main_panicked("C04", &message, &mut out);
            let _ = std::fs::remove_dir_all(&dir);
            return out;
        }
        Err(stop) => {
            out.harness_error = Some(format!("recorded run stopped: {stop:?}"));
            let _ = std::fs::remove_dir_all(&dir);
            return out;
        }
    };
    out.ops = ops;
    out.stats = h.stats.clone();
    out.steps = sim.steps();
    if sim.inner.deferred_writes.get() > 0 {
        out.extra.insert("file_writes_completed_later".into(), sim.inner.deferred_writes.get());
    }
    out.sim_micros = sim.inner.final_sim_micros.get();
    out.trace_hash = format!("{:016x}", sim.trace_hash());
    out.harness_error = error;
    let events: Vec<FsEvent> = sim.inner.fs.borrow().log.clone();
    out.fs_mutations = events.len();
    let data_root = PathBuf::from(world.data_path());
    // self-check of the independent reader on the final, fault-free directory
    for s in h.model.streams.values() {
        for t in s.topics.values() {
            for p in t.partitions.values() {
                let pdir = data_root.join(format!("streams/{}/topics/{}/partitions/{}", s.id, t.id, p.id));
                let parsed = parse_partition(&pdir);
                for (offset, id, _) in &parsed {
                    match p.msgs.get(*offset as usize) {
                        Some(m) if !m.id_known || m.id == *id => {}
                        _ if p.tainted => {}
                        other => {
                            out.harness_error = Some(format!("independent reader disagrees with the model on a fault-free run: partition {}/{}/{} offset {offset} id {id} model {:?}", s.id, t.id, p.id, other.map(|m| m.id)));
                        }
                    }
                }
            }
        }
    }
    drop(h);
    if out.harness_error.is_some() {
        let _ = std::fs::remove_dir_all(&dir);
        return out;
    }
    // ---------------------------------------------------------------- phase 2: every boundary
    let running = dir.join("image-running");
    let running_root = running.join("local_data");
    std::fs::create_dir_all(&running_root).unwrap();
    let empty_model = Model::default();
    let mut images = 0u64;
    let mut boundaries = 0u64;
    let mut torn_images = 0u64;
    let mut kinds: BTreeMap<String, u64> = BTreeMap::new();
    let max_images: u64 = std::env::var("VERIF_MAX_IMAGES").ok().and_then(|s| s.parse().ok()).unwrap_or(100_000);
    let first_interesting = checkpoints.first().map(|c| c.fs_before).unwrap_or(0);
    for k in 0..=events.len() {
        if k > 0 {
            if apply_event(&data_root, &running_root, &events[k - 1]).is_err() {
                out.harness_error = Some(format!("cannot replay mutation {} {:?}", k - 1, kind_of(&events[k - 1])));
                break;
            }
        }
        if k < first_interesting || images >= max_images {
            continue;
        }
        // which operation was in flight at this boundary?
        let index = checkpoints.iter().position(|c| k <= c.fs_after).unwrap_or(checkpoints.len().saturating_sub(1));
        let pre = if index == 0 { &empty_model } else { &checkpoints[index - 1].model_after };
        let post = &checkpoints[index].model_after;
        let in_flight = k > checkpoints[index].fs_before && k < checkpoints[index].fs_after;
        // only boundaries after the mutation kinds the property quantifies over
        let last_kind = if k == 0 { "start".to_string() } else { kind_of(&events[k - 1]) };
        let claimed = k == 0 || is_claimed_kind(&events[k - 1]);
        if !claimed {
            *kinds.entry(format!("skipped:{last_kind}")).or_insert(0) += 1;
            continue;
        }
        boundaries += 1;
        *kinds.entry(last_kind.clone()).or_insert(0) += 1;
        let image = dir.join("image");
        let _ = std::fs::remove_dir_all(&image);
        copy_dir(&running, &image).unwrap();
        images += 1;
        judge_image(case, &image, k, &last_kind, "boundary", in_flight, pre, post, &mut out.violations);
        // torn variants of the last write
        if k > 0 {
            if let FsEvent::Write { path, offset, data } = &events[k - 1] {
                let mut lengths: BTreeSet<usize> = [1usize, data.len() / 2, data.len().saturating_sub(1)].into_iter().filter(|l| *l > 0 && *l < data.len()).collect();
                // record-structure boundaries inside the write (batch header, message length prefixes)
                if data.len() > 24 {
                    lengths.insert(24);
                    lengths.insert(8);
                }
                for len in lengths {
                    if images >= max_images {
                        break;
                    }
                    let _ = std::fs::remove_dir_all(&image);
                    copy_dir(&running, &image).unwrap();
                    let rel = path.strip_prefix(&data_root).unwrap_or(path);
                    let target = image.join("local_data").join(rel);
                    if let Ok(file) = std::fs::OpenOptions::new().write(true).open(&target) {
                        // the directory already holds the complete write: cut it back to `len` bytes
                        let _ = file.set_len(offset + len as u64);
                    }
                    images += 1;
                    torn_images += 1;
                    // a torn write is an operation in flight: before-or-after semantics
                    let pre_torn = if index == 0 { &empty_model } else { &checkpoints[index - 1].model_after };
                    judge_image(case, &image, k, &last_kind, "torn", true, pre_torn, post, &mut out.violations);
                }
            }
        }
        if out.violations.len() >= 20 {
            break;
        }
    }
    out.extra.insert("crash_images_booted".into(), images);
    out.extra.insert("crash_boundaries".into(), boundaries);
    out.extra.insert("torn_images".into(), torn_images);
    for (k, v) in kinds {
        out.extra.insert(format!("boundary_after:{k}"), v);
    }
    out.nontrivial = images >= 10;
    out.shape = format!("save{}-seg{}-nw{}-fs{}-idx{}|mutations{}|ops{}", case.knobs.messages_required_to_save, case.knobs.segment_size, case.knobs.no_wait as u8, case.knobs.partition_fsync as u8, case.knobs.cache_indexes as u8, events.len() / 20, out.ops.len() / 5);
    let _ = std::fs::remove_dir_all(&dir);
    out
}

fn kind_of(e: &FsEvent) -> String {
    match e {
        FsEvent::Create { path } => format!("create:{:?}", classify(path)),
        FsEvent::Write { path, .. } => format!("write:{:?}", classify(path)),
        FsEvent::SetLen { path, .. } => format!("set_len:{:?}", classify(path)),
        FsEvent::Rename { from, .. } => format!("rename:{:?}", classify(from)),
        FsEvent::Unlink { path } => format!("unlink:{:?}", classify(path)),
        FsEvent::Mkdir { .. } => "mkdir".into(),
        FsEvent::RemoveDirAll { .. } => "rmdir".into(),
        FsEvent::Sync { path } => format!("sync:{:?}", classify(path)),
    }
}

/// log append, index append, consumer-offset write, state-log append, segment creation/deletion
fn is_claimed_kind(e: &FsEvent) -> bool {
    match e {
        FsEvent::Write { path, .. } | FsEvent::Create { path } | FsEvent::Unlink { path } | FsEvent::SetLen { path, .. } => {
            matches!(classify(path), PathClass::Log | PathClass::Index | PathClass::ConsumerOffset | PathClass::StateLog)
        }
        _ => false,
    }
}

#[allow(clippy::too_many_arguments)]
fn judge_image(case: &Case, image: &Path, k: usize, last_kind: &str, variant: &'static str, in_flight: bool, pre: &Model, post: &Model, violations: &mut Vec<Violation>) {
    crate::determinism::reset_hash_seeds();
    let mut cfg = case.sim_config();
    cfg.seed = case.seed ^ ((k as u64) << 20) ^ 0xC4A5;
    cfg.policy = crate::rt::SchedPolicy::Fifo;
    cfg.yield_prob = 0.0;
    let sim = Sim::new(cfg);
    let world = World::new(sim.clone(), image.to_path_buf(), case.knobs.clone());
    let w = world.clone();
    let pre = pre.clone();
    let post = post.clone();
    let no_wait = case.knobs.no_wait;
    // the cause class of the crash point (what the crash interrupted), used to tell findings apart
    let tag_base = {
        let k = last_kind;
        if k.contains("ConsumerOffset") {
            "offset_file_being_written"
        } else if k.contains("StateLog") {
            if variant == "torn" { "state_journal_entry_torn" } else { "after_state_journal_append" }
        } else if k.starts_with("write:Log") || (k.starts_with("write:Index") && variant == "torn") {
            if case.knobs.no_wait { "log_and_index_out_of_step_nowait" } else { "log_written_index_not_yet" }
        } else if k.starts_with("write:Index") {
            if case.knobs.no_wait { "log_and_index_out_of_step_nowait" } else { "after_index_append" }
        } else if k.starts_with("create:") || k.starts_with("unlink:") || k.starts_with("set_len:") {
            "segment_files_being_created_or_deleted"
        } else {
            "start"
        }
    }
    .to_string();
    let last_kind_owned = last_kind.to_string();
    let image_root = PathBuf::from(world.data_path());
    let result = sim.block_on(async move {
        let mut found: Vec<(&'static str, String, String)> = Vec::new();
        let started = w.start().await;
        let panics = w.sim.take_panics();
        for p in &panics {
            found.push(("recovery_never_panics", crate::harness::panic_tag(p), format!("start-up on the crash image panicked: {}", p.chars().take(200).collect::<String>())));
        }
        if let Err(e) = started {
            if panics.is_empty() {
                // an Err that *reports* a torn trailing state-journal record is accepted
                let reports_journal = last_kind_owned.contains("StateLog") && in_flight;
                if !reports_journal {
                    found.push(("restart_succeeds", format!("init_error:{}", e.as_string()), format!("start-up on the crash image failed: {e:?}")));
                }
            }
            return found;
        }
        let Ok(client) = w.root_client().await else {
            found.push(("restart_succeeds", "root_login_failed".into(), "root cannot log in after recovery".into()));
            return found;
        };
        // what each partition serves after recovery and the probe send: a second restart must serve the same
        let mut served: Vec<((u32, u32, u32), Vec<(u64, u128)>)> = Vec::new();
        // every partition both the pre- and the post-model have must exist and expose a consistent prefix
        for s in post.streams.values() {
            for t in s.topics.values() {
                for p in t.partitions.values() {
                    let in_pre = pre.streams.get(&s.id).and_then(|x| x.topics.get(&t.id)).and_then(|x| x.partitions.get(&p.id));
                    if p.tainted {
                        continue;
                    }
                    let sid = IdRef::Num(s.id).to_identifier();
                    let tid = IdRef::Num(t.id).to_identifier();
                    let polled = client.poll_messages(&sid, &tid, Some(p.id), &Consumer::default(), &PollingStrategy::offset(0), 100_000, false).await;
                    let polled = match polled {
                        Ok(x) => x,
                        Err(e) => {
                            if in_pre.is_some() || !in_flight {
                                found.push(("partition_readable", format!("poll_error:{}", e.as_string()), format!("partition {}/{}/{} cannot be read after recovery: {e:?}", s.id, t.id, p.id)));
                            }
                            continue;
                        }
                    };
                    let offsets: Vec<u64> = polled.messages.iter().map(|m| m.offset).collect();
                    if offsets.windows(2).any(|x| x[1] != x[0] + 1) {
                        found.push(("prefix_gap_free", "gap_or_repeat".into(), format!("partition {}/{}/{} serves {} after recovery", s.id, t.id, p.id, crate::harness::brief(&offsets))));
                        continue;
                    }
                    // purge in flight: either the old or the new (empty) log
                    let candidates: Vec<&crate::model::MPartition> = if in_flight { [Some(p), in_pre].into_iter().flatten().collect() } else { vec![p] };
                    let mut matched = false;
                    let mut why = String::new();
                    for model in &candidates {
                        let mut ok = true;
                        for m in &polled.messages {
                            match model.msgs.get(m.offset as usize) {
                                Some(mm) if (!mm.id_known || mm.id == m.id) && mm.payload == m.payload.as_ref() => {}
                                Some(mm) => {
                                    ok = false;
                                    why = format!("offset {} holds id {} ({} bytes), accepted was id {} ({} bytes)", m.offset, m.id, m.payload.len(), mm.id, mm.payload.len());
                                    break;
                                }
                                None => {
                                    ok = false;
                                    why = format!("offset {} (id {}) was never accepted (log had {} messages)", m.offset, m.id, model.msgs.len());
                                    break;
                                }
                            }
                        }
                        if ok {
                            if let (Some(first), true) = (offsets.first(), !offsets.is_empty()) {
                                if *first > model.first_retained && *first != 0 {
                                    // starts later than the retained range: a hole at the front
                                    // a purge or a retention pass in flight removes whole segments from the front one
                                    // by one: the statement does not make either of them atomic
                                    let allowed = candidates.iter().any(|c| c.first_retained >= *first || (in_flight && c.msgs.is_empty()));
                                    if !allowed {
                                        ok = false;
                                        why = format!("first served offset {first}, retained from {}", model.first_retained);
                                    }
                                }
                            }
                        }
                        if ok {
                            matched = true;
                            break;
                        }
                    }
                    if !matched {
                        found.push(("prefix_of_accepted", "foreign_or_altered".into(), format!("partition {}/{}/{} after recovery: {why}", s.id, t.id, p.id)));
                        continue;
                    }
                    // lower bound under wait confirmation: what was completely written and indexed
                    if !no_wait {
                        let pdir = image_root.join(format!("streams/{}/topics/{}/partitions/{}", s.id, t.id, p.id));
                        let on_disk = parse_partition(&pdir);
                        if let Some((last, _, _)) = on_disk.last() {
                            let r = offsets.last().copied();
                            if r.map(|r| r < *last).unwrap_or(true) {
                                found.push(("completed_writes_survive", "written_messages_missing".into(), format!("partition {}/{}/{}: batches up to offset {last} were completely written and indexed, recovery serves up to {r:?}", s.id, t.id, p.id)));
                            }
                        }
                    }
                    // messages accepted after recovery continue at the next offset, and a second restart agrees
                    let mut next = offsets.last().map(|o| o + 1).unwrap_or_else(|| if polled.current_offset > 0 { polled.current_offset + 1 } else { 0 });
                    // a partition that serves nothing and reports current offset 0 is either new (next offset 0) or
                    // holds an empty segment that continues after deleted messages (next offset 1): both are told
                    // apart only by where the next message lands
                    let next_may_be_one = offsets.is_empty() && polled.current_offset == 0;
                    let probe = MsgSpec { id: 900_000 + p.id as u128 + ((t.id as u128) << 8), salt: 77, len: 12, headers: 0 };
                    let mut messages = vec![probe.to_message()];
                    let sent = client.send_messages(&sid, &tid, &Partitioning::partition_id(p.id), &mut messages).await;
                    let sent_ok = sent.is_ok();
                    // under no-wait confirmation the batch may still be on its way to the file (that window is
                    // C12's subject): look once the background writer is idle
                    w.sim.settle().await;
                    match sent {
                        Ok(()) => {
                            let mut after = client.poll_messages(&sid, &tid, Some(p.id), &Consumer::default(), &PollingStrategy::offset(next), 10, false).await;
                            if next_may_be_one {
                                if let Ok(a) = &after {
                                    if a.messages.first().map(|m| m.id == probe.id && m.offset == 1).unwrap_or(false) {
                                        next = 1;
                                        after = client.poll_messages(&sid, &tid, Some(p.id), &Consumer::default(), &PollingStrategy::offset(next), 10, false).await;
                                    }
                                }
                            }
                            match after {
                                Ok(a) if a.messages.first().map(|m| m.id == probe.id && m.offset == next).unwrap_or(false) => {}
                                Ok(a) => {
                                    let got: Vec<(u64, u128)> = a.messages.iter().map(|m| (m.offset, m.id)).collect();
                                    let whole = client.poll_messages(&sid, &tid, Some(p.id), &Consumer::default(), &PollingStrategy::offset(0), 100_000, false).await.map(|x| x.messages.iter().filter(|m| m.id == probe.id).map(|m| m.offset).collect::<Vec<_>>()).unwrap_or_default();
                                    let tag = if whole.first().map(|o| *o < next).unwrap_or(false) { "offset_reused" } else { "offset_skipped_or_invisible" };
                                    found.push(("post_recovery_send_continues", tag.into(), format!("partition {}/{}/{}: recovered up to {:?}, the next message was expected at {next}; poll from there gives {got:?}; the probe sits at {whole:?}", s.id, t.id, p.id, offsets.last())));
                                }
                                Err(e) => found.push(("post_recovery_send_continues", "poll_error".into(), format!("poll after the post-recovery send failed: {e:?}"))),
                            }
                        }
                        Err(e) => {
                            if t.max_size.is_none() {
                                found.push(("post_recovery_send_continues", format!("send_error:{}", e.as_string()), format!("send after recovery to {}/{}/{} failed: {e:?}", s.id, t.id, p.id)));
                            }
                        }
                    }
                    // a second, larger batch, forced to the file: reads by offset inside it go through the index
                    if sent_ok {
                        let second: Vec<MsgSpec> = (0..3u128).map(|i| MsgSpec { id: 910_000 + i + ((p.id as u128) << 8) + ((t.id as u128) << 16), salt: 78, len: 12, headers: 0 }).collect();
                        let mut messages: Vec<iggy::messages::send_messages::Message> = second.iter().map(|m| m.to_message()).collect();
                        if client.send_messages(&sid, &tid, &Partitioning::partition_id(p.id), &mut messages).await.is_ok() {
                            let _ = client.flush_unsaved_buffer(&sid, &tid, p.id, false).await;
                            w.sim.settle().await;
                            let from = next + 2;
                            match client.poll_messages(&sid, &tid, Some(p.id), &Consumer::default(), &PollingStrategy::offset(from), 2, false).await {
                                Ok(a) if a.messages.len() == 2 && a.messages[0].offset == from && a.messages[0].id == second[1].id && a.messages[1].id == second[2].id => {}
                                Ok(a) => {
                                    let got: Vec<(u64, u128)> = a.messages.iter().map(|m| (m.offset, m.id)).collect();
                                    found.push(("post_recovery_send_continues", "later_messages_unreadable".into(), format!("partition {}/{}/{}: messages sent after recovery were acknowledged at offsets {}..={}, a poll from {from} gives {got:?}", s.id, t.id, p.id, next + 1, next + 3)));
                                }
                                Err(e) => found.push(("post_recovery_send_continues", "poll_error".into(), format!("poll after the second post-recovery send failed: {e:?}"))),
                            }
                        }
                    }
                    if let Ok(all) = client.poll_messages(&sid, &tid, Some(p.id), &Consumer::default(), &PollingStrategy::offset(0), 100_000, false).await {
                        served.push(((s.id, t.id, p.id), all.messages.iter().map(|m| (m.offset, m.id)).collect()));
                    }
                    // consumer offsets: a value that was stored (before or by the operation in flight), or absent
                    for (key, value) in &p.consumer_offsets {
                        let got = client.get_consumer_offset(&Consumer::new(IdRef::Num(*key).to_identifier()), &sid, &tid, Some(p.id)).await.ok().flatten().map(|i| i.stored_offset);
                        let before = in_pre.and_then(|x| x.consumer_offsets.get(key)).copied();
                        let legal = got == Some(*value) || got == before || (in_flight && got.is_none());
                        if !legal {
                            found.push(("consumer_offset_is_a_stored_value", "garbage_or_lost".into(), format!("consumer {key} on {}/{}/{}: recovered {got:?}, stored {value} (before the operation in flight: {before:?})", s.id, t.id, p.id)));
                        }
                    }
                }
            }
        }
        drop(client);
        // a second (clean) restart must agree
        if w.restart(StopKind::GracefulDrained).await.is_err() {
            found.push(("second_restart_succeeds", "init_error".into(), "the restart after recovery failed".into()));
        }
        else if let Ok(client) = w.root_client().await {
            for ((sid, tid, pid), before) in &served {
                let polled = client.poll_messages(&IdRef::Num(*sid).to_identifier(), &IdRef::Num(*tid).to_identifier(), Some(*pid), &Consumer::default(), &PollingStrategy::offset(0), 100_000, false).await;
                match polled {
                    Ok(polled) => {
                        let after: Vec<(u64, u128)> = polled.messages.iter().map(|m| (m.offset, m.id)).collect();
                        if &after != before {
                            let offsets_before: Vec<u64> = before.iter().map(|x| x.0).collect();
                            let offsets_after: Vec<u64> = after.iter().map(|x| x.0).collect();
                            found.push(("second_restart_serves_the_same", if after.len() < before.len() { "messages_lost".into() } else { "messages_changed".into() }, format!("partition {sid}/{tid}/{pid}: after recovery (and one more send) it served {}, after one more clean restart {}", crate::harness::brief(&offsets_before), crate::harness::brief(&offsets_after))));
                        }
                    }
                    Err(e) => found.push(("second_restart_serves_the_same", "poll_error".into(), format!("partition {sid}/{tid}/{pid} cannot be read after the second restart: {e:?}"))),
                }
            }
            drop(client);
        }
        for p in w.sim.take_panics() {
            found.push(("recovery_never_panics", crate::harness::panic_tag(&p), format!("panic after recovery: {}", p.chars().take(200).collect::<String>())));
        }
        let _ = w.stop(StopKind::Kill).await;
        found
    });
    match result {
        Ok(found) => {
            for (oracle, tag, detail) in found {
                if violations.len() < 40 {
                    violations.push(Violation { prop: "C04", oracle, tag: format!("{tag}@{tag_base}"), detail: format!("crash point {k} ({variant}, last mutation {last_kind}): {detail}"), op_index: k });
                }
            }
        }
        Err(stop) => violations.push(Violation { prop: "C04", oracle: "bounded_liveness", tag: format!("recovery_never_ends@{tag_base}"), detail: format!("crash point {k}: recovery did not finish: {stop:?}"), op_index: k }),
    }
}

#[allow(dead_code)]
fn unused(_: Part) {}
