//! Closing the remaining sources of nondeterminism outside the repository.

use std::sync::atomic::{AtomicUsize, Ordering};

static COUNTER: AtomicUsize = AtomicUsize::new(1);

struct CountingSource;

impl ahash::random_state::RandomSource for CountingSource {
    fn gen_hasher_seed(&self) -> usize {
        COUNTER.fetch_add(0x9E37_79B9_7F4A_7C15, Ordering::Relaxed)
    }
}

/// Must run before the first `AHashMap` is created in the process.
pub fn init_process() {
    let _ = ahash::random_state::set_random_source(CountingSource);
}

/// Per-map hash seeds restart from the same value (run start and every simulated process start).
pub fn reset_hash_seeds() {
    COUNTER.store(1, Ordering::Relaxed);
}
