//! A hand-driven connection speaking the binary framing directly (unauthenticated probes, malformed
//! frames): [length u32 LE][code u32 LE][payload] -> [status u32 LE][length u32 LE][payload].

use crate::rt::Sim;
use iggy::verif::{SimRuntime, SimStream};
use std::io;
use tokio::io::{AsyncReadExt, AsyncWriteExt};

pub struct RawConn {
    pub stream: SimStream,
}

impl RawConn {
    pub fn open(sim: &Sim) -> io::Result<RawConn> {
        let (stream, _, _) = sim.inner.connect("sim")?;
        Ok(RawConn { stream })
    }

    pub async fn write_raw(&mut self, bytes: &[u8]) -> io::Result<()> {
        self.stream.write_all(bytes).await?;
        self.stream.flush().await
    }

    /// Reads one response; gives up after 30 simulated seconds of complete silence (the clock only moves
    /// when nothing else can run, so this is "the server is waiting for more bytes", not slowness).
    pub async fn read_response(&mut self) -> io::Result<(u32, Vec<u8>)> {
        match tokio::time::timeout(std::time::Duration::from_secs(30), self.read_response_inner()).await {
            Ok(r) => r,
            Err(_) => Err(io::Error::new(io::ErrorKind::TimedOut, "no response")),
        }
    }

    async fn read_response_inner(&mut self) -> io::Result<(u32, Vec<u8>)> {
        let mut head = [0u8; 8];
        self.stream.read_exact(&mut head).await?;
        let status = u32::from_le_bytes(head[..4].try_into().unwrap());
        let length = u32::from_le_bytes(head[4..].try_into().unwrap()) as usize;
        if length > 64 * 1024 * 1024 {
            return Err(io::Error::other("absurd response length"));
        }
        let mut payload = vec![0u8; length];
        self.stream.read_exact(&mut payload).await?;
        Ok((status, payload))
    }

    pub async fn request(&mut self, code: u32, payload: &[u8]) -> io::Result<(u32, Vec<u8>)> {
        let mut frame = Vec::with_capacity(8 + payload.len());
        frame.extend_from_slice(&((payload.len() + 4) as u32).to_le_bytes());
        frame.extend_from_slice(&code.to_le_bytes());
        frame.extend_from_slice(payload);
        self.write_raw(&frame).await?;
        self.read_response().await
    }
}
