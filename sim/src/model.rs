//! The reference model: a small sequential description of what the server must look like after the
//! acknowledged commands — maps and vectors, nothing clever.

use crate::ops::{CanonHeaders, Expiry, IdRef, MaxSize, PermSpec};
use serde::Serialize;
use std::collections::{BTreeMap, BTreeSet};

#[derive(Clone, Debug, Serialize)]
pub struct MMsg {
    pub id: u128,
    /// id 0 was sent: the server assigns one, learned at first read
    pub id_known: bool,
    pub payload: Vec<u8>,
    pub headers: Option<CanonHeaders>,
    pub ts: Option<u64>,
    pub ts_lo: u64,
    pub ts_hi: u64,
    pub checksum: Option<u32>,
    /// event sequence numbers of the send (invoke, return)
    pub send_seq: (u64, u64),
}

#[derive(Clone, Debug, Default, Serialize)]
pub struct MPartition {
    pub id: u32,
    /// every message accepted since creation / last purge; index == offset
    pub msgs: Vec<MMsg>,
    /// messages below this offset were removed by retention
    pub first_retained: u64,
    pub consumer_offsets: BTreeMap<u32, u64>,
    pub group_offsets: BTreeMap<u32, u64>,
    pub dedup_ids: BTreeSet<u128>,
    /// ids stored before a purge: the property does not say whether they are still remembered
    pub purged_ids: BTreeSet<u128>,
    pub created_at: Option<u64>,
    /// set when an injected fault made the content of this partition uncertain
    pub tainted: bool,
}

impl MPartition {
    pub fn current_offset(&self) -> u64 {
        if self.msgs.is_empty() {
            0
        } else {
            self.msgs.len() as u64 - 1
        }
    }

    pub fn retained_count(&self) -> u64 {
        (self.msgs.len() as u64).saturating_sub(self.first_retained)
    }

    pub fn retained(&self) -> &[MMsg] {
        let start = (self.first_retained as usize).min(self.msgs.len());
        &self.msgs[start..]
    }
}

#[derive(Clone, Debug, Serialize)]
pub struct MMember {
    pub client_id: u32,
}

#[derive(Clone, Debug, Serialize)]
pub struct MGroup {
    pub id: u32,
    pub name: String,
    /// member client ids in join order
    pub members: Vec<u32>,
}

#[derive(Clone, Debug, Serialize)]
pub struct MTopic {
    pub id: u32,
    pub name: String,
    pub partitions: BTreeMap<u32, MPartition>,
    /// effective expiry in micros (0 = never)
    pub expiry_micros: u64,
    /// effective size limit (None = unlimited)
    pub max_size: Option<u64>,
    pub compression: u8,
    pub replication: u8,
    pub groups: BTreeMap<u32, MGroup>,
    pub created_at: Option<u64>,
    /// balanced-send rotation: partition the next balanced send must not skip (learned)
    pub balanced_history: Vec<u32>,
}

#[derive(Clone, Debug, Serialize)]
pub struct MStream {
    pub id: u32,
    pub name: String,
    pub topics: BTreeMap<u32, MTopic>,
    pub created_at: Option<u64>,
}

#[derive(Clone, Debug, Serialize)]
pub struct MPat {
    pub name: String,
    pub expiry_at: Option<u64>,
    pub raw_ref: usize,
}

#[derive(Clone, Debug, Serialize)]
pub struct MUser {
    pub id: u32,
    pub name: String,
    pub password: String,
    pub active: bool,
    pub perms: Option<PermSpec>,
    pub pats: BTreeMap<String, MPat>,
    pub created_at: Option<u64>,
}

#[derive(Clone, Debug, Default, Serialize)]
pub struct MSession {
    pub connected: bool,
    /// authenticated user id (0 = none)
    pub user: u32,
    /// server-side client id, learned from get_me
    pub client_id: Option<u32>,
    /// the user this connection was logged in as when that user was deleted
    pub deleted_user: Option<u32>,
}

#[derive(Clone, Debug, Default, Serialize)]
pub struct Model {
    pub streams: BTreeMap<u32, MStream>,
    pub users: BTreeMap<u32, MUser>,
    pub sessions: Vec<MSession>,
    /// effective server defaults
    pub default_expiry_micros: u64,
    pub default_max_size: Option<u64>,
    pub segment_size: u64,
    pub dedup: bool,
    pub delete_oldest: bool,
    /// raw tokens handed out so far (index = token_ref)
    pub raw_tokens: Vec<String>,
    /// (stream, topic, group, client id) -> the partition the member's last poll without a partition id was
    /// served from: what an offset request of that member without a partition id refers to. Learnt from poll
    /// responses, forgotten whenever something that may rebalance the group runs.
    #[serde(skip)]
    pub member_current: BTreeMap<(u32, u32, u32, u32), u32>,
}

impl Model {
    pub fn stream_id(&self, r: &IdRef) -> Option<u32> {
        match r {
            IdRef::Num(n) => self.streams.contains_key(n).then_some(*n),
            IdRef::Name(s) => self.streams.values().find(|x| &x.name == s).map(|x| x.id),
        }
    }

    pub fn stream(&self, r: &IdRef) -> Option<&MStream> {
        self.stream_id(r).and_then(|id| self.streams.get(&id))
    }

    pub fn topic_ids(&self, s: &IdRef, t: &IdRef) -> Option<(u32, u32)> {
        let stream = self.stream(s)?;
        let tid = match t {
            IdRef::Num(n) => stream.topics.contains_key(n).then_some(*n),
            IdRef::Name(name) => stream.topics.values().find(|x| &x.name == name).map(|x| x.id),
        }?;
        Some((stream.id, tid))
    }

    pub fn topic(&self, s: &IdRef, t: &IdRef) -> Option<&MTopic> {
        let (sid, tid) = self.topic_ids(s, t)?;
        self.streams.get(&sid)?.topics.get(&tid)
    }

    pub fn topic_mut(&mut self, s: &IdRef, t: &IdRef) -> Option<&mut MTopic> {
        let (sid, tid) = self.topic_ids(s, t)?;
        self.streams.get_mut(&sid)?.topics.get_mut(&tid)
    }

    pub fn group_id(topic: &MTopic, g: &IdRef) -> Option<u32> {
        match g {
            IdRef::Num(n) => topic.groups.contains_key(n).then_some(*n),
            IdRef::Name(name) => topic.groups.values().find(|x| &x.name == name).map(|x| x.id),
        }
    }

    pub fn user_id(&self, r: &IdRef) -> Option<u32> {
        match r {
            IdRef::Num(n) => self.users.contains_key(n).then_some(*n),
            IdRef::Name(s) => self.users.values().find(|x| &x.name == s).map(|x| x.id),
        }
    }

    pub fn effective_expiry(&self, e: &Expiry) -> u64 {
        match e {
            Expiry::ServerDefault => self.default_expiry_micros,
            Expiry::Never => 0,
            Expiry::Micros(m) => *m,
        }
    }

    /// `Err(())` when the limit is smaller than one segment (must be rejected).
    pub fn effective_max_size(&self, m: &MaxSize) -> Result<Option<u64>, ()> {
        match m {
            MaxSize::ServerDefault => Ok(self.default_max_size),
            MaxSize::Unlimited => Ok(None),
            MaxSize::Bytes(b) => {
                if *b >= self.segment_size {
                    Ok(Some(*b))
                } else {
                    Err(())
                }
            }
        }
    }

    /// A compact structural hash of the model (distinct-state coverage measure).
    pub fn state_hash(&self) -> u64 {
        let mut h: u64 = 0xcbf2_9ce4_8422_2325;
        let mut mix = |v: u64| {
            h ^= v;
            h = h.wrapping_mul(0x1000_0000_01b3);
        };
        for s in self.streams.values() {
            mix(s.id as u64);
            for t in s.topics.values() {
                mix(0x100 + t.id as u64);
                mix(t.expiry_micros);
                mix(t.max_size.unwrap_or(0));
                for p in t.partitions.values() {
                    mix(0x200 + p.id as u64);
                    mix(p.msgs.len() as u64);
                    mix(p.first_retained);
                    for (k, v) in &p.consumer_offsets {
                        mix(((*k as u64) << 32) ^ *v);
                    }
                    for (k, v) in &p.group_offsets {
                        mix(((*k as u64) << 33) ^ *v);
                    }
                }
                for g in t.groups.values() {
                    mix(0x300 + g.id as u64);
                    mix(g.members.len() as u64);
                }
            }
        }
        for u in self.users.values() {
            mix(0x400 + u.id as u64);
            mix(u.active as u64);
            mix(u.pats.len() as u64);
        }
        for s in &self.sessions {
            mix(0x500 + s.user as u64 + ((s.connected as u64) << 40));
        }
        h
    }
}

/// Which offsets a poll must return: `primary`, or `alternative` where the statement leaves room.
#[derive(Debug, Clone)]
pub struct PollExpectation {
    pub primary: Vec<u64>,
    pub alternative: Option<Vec<u64>>,
}

pub fn expect_by_offset(p: &MPartition, offset: u64, count: u32) -> PollExpectation {
    let count = count as u64;
    if p.msgs.is_empty() || offset > p.current_offset() || count == 0 {
        return PollExpectation { primary: vec![], alternative: None };
    }
    let current = p.current_offset();
    if p.first_retained > current {
        return PollExpectation { primary: vec![], alternative: None };
    }
    let start = offset.max(p.first_retained);
    let end = (start + count - 1).min(current);
    let primary: Vec<u64> = (start..=end).collect();
    let alternative = if offset < p.first_retained {
        // the strict reading of "offsets in [o, o+n-1]" intersected with what is retained
        let strict_end = (offset + count - 1).min(current);
        if strict_end >= start {
            Some((start..=strict_end).collect())
        } else {
            Some(vec![])
        }
    } else {
        None
    };
    PollExpectation { primary, alternative }
}

pub fn expect_last(p: &MPartition, count: u32) -> PollExpectation {
    if p.msgs.is_empty() || count == 0 {
        return PollExpectation { primary: vec![], alternative: None };
    }
    let current = p.current_offset();
    if p.first_retained > current {
        return PollExpectation { primary: vec![], alternative: None };
    }
    let wanted = (count as u64).min(current + 1);
    let start = (current + 1 - wanted).max(p.first_retained);
    PollExpectation { primary: (start..=current).collect(), alternative: None }
}

pub fn expect_by_timestamp(p: &MPartition, ts: u64, count: u32) -> Option<PollExpectation> {
    // only decidable when every retained message's timestamp has been learned
    let mut out = Vec::new();
    for (i, m) in p.msgs.iter().enumerate().skip(p.first_retained as usize) {
        let t = m.ts?;
        if t >= ts {
            out.push(i as u64);
            if out.len() as u32 >= count {
                break;
            }
        }
    }
    Some(PollExpectation { primary: out, alternative: None })
}
