//! C20: the SDK's high-level producer and consumer (real `IggyClient`, `IggyProducer`, `IggyConsumer`
//! code, their background tasks scheduled by the simulator) against the simulated server.

use crate::gen::Case;
use crate::harness::Violation;
use crate::ops::{IdRef, MsgSpec};
use crate::rng::Rng;
use crate::rt::Sim;
use crate::scen::{scratch_dir, RunOutput};
use crate::world::{StopKind, World};
use futures::StreamExt;
use iggy::client::*;
use iggy::clients::client::IggyClient;
use iggy::clients::consumer::{AutoCommit, AutoCommitAfter, AutoCommitWhen};
use iggy::compression::compression_algorithm::CompressionAlgorithm;
use iggy::consumer::Consumer;
use iggy::messages::poll_messages::PollingStrategy;
use iggy::messages::send_messages::Partitioning;
use iggy::tcp::client::TcpClient;
use iggy::utils::duration::IggyDuration;
use iggy::utils::expiry::IggyExpiry;
use iggy::utils::topic_size::MaxTopicSize;
use std::collections::BTreeMap;
use std::sync::Arc;
use std::time::Duration;

#[derive(Default)]
struct Found {
    v: Vec<(&'static str, String, String)>,
}

impl Found {
    fn push(&mut self, oracle: &'static str, tag: impl Into<String>, detail: String) {
        if self.v.len() < 30 {
            self.v.push((oracle, tag.into(), detail));
        }
    }
}

async fn new_client(w: &World) -> Result<IggyClient, String> {
    let tcp = TcpClient::create(Arc::new(w.client_config(true, false))).map_err(|e| format!("{e:?}"))?;
    let client = IggyClient::create(Box::new(tcp), None, None);
    Client::connect(&client).await.map_err(|e| format!("connect: {e:?}"))?;
    Ok(client)
}

pub fn run_sdk(case: &Case) -> RunOutput {
    let mut out = RunOutput { seed: case.seed, prop: case.prop.clone(), ..Default::default() };
    let dir = scratch_dir(case.seed);
    let _ = std::fs::remove_dir_all(&dir);
    std::fs::create_dir_all(&dir).expect("scratch dir");
    crate::determinism::reset_hash_seeds();
    let sim = Sim::new(case.sim_config());
    let world = World::new(sim.clone(), dir.clone(), case.knobs.clone());
    let seed = case.seed;
    let w = world.clone();
    let result = sim.block_on(async move {
        let mut rng = Rng::substream(seed, "sdk");
        let mut found = Found::default();
        let mut extra: BTreeMap<String, u64> = BTreeMap::new();
        w.start().await.map_err(|e| format!("first start failed: {e:?}"))?;
        let admin = w.root_client().await.map_err(|e| format!("admin: {e:?}"))?;
        let partitions = 1 + rng.below(3) as u32;
        admin.create_stream("sdk-stream", Some(1)).await.map_err(|e| format!("{e:?}"))?;
        admin.create_stream("other-stream", Some(2)).await.map_err(|e| format!("{e:?}"))?;
        let s1 = IdRef::Num(1).to_identifier();
        let s2 = IdRef::Num(2).to_identifier();
        admin.create_topic(&s1, "sdk-topic", partitions, CompressionAlgorithm::None, None, Some(1), IggyExpiry::NeverExpire, MaxTopicSize::Unlimited).await.map_err(|e| format!("{e:?}"))?;
        admin.create_topic(&s1, "other-topic", partitions, CompressionAlgorithm::None, None, Some(2), IggyExpiry::NeverExpire, MaxTopicSize::Unlimited).await.map_err(|e| format!("{e:?}"))?;
        admin.create_topic(&s2, "other-topic", partitions, CompressionAlgorithm::None, None, Some(1), IggyExpiry::NeverExpire, MaxTopicSize::Unlimited).await.map_err(|e| format!("{e:?}"))?;
        // ------------------------------------------------------------------ producer
        let client = new_client(&w).await?;
        let batch_size = *rng.pick(&[0u32, 1, 3, 100]);
        let interval = *rng.pick(&[0u64, 1_000, 50_000]);
        let partitioning_kind = rng.below(3);
        let mut builder = client.producer("sdk-stream", "sdk-topic").map_err(|e| format!("{e:?}"))?;
        builder = if batch_size == 0 { builder.without_batch_size() } else { builder.batch_size(batch_size) };
        builder = if interval == 0 { builder.without_send_interval() } else { builder.send_interval(IggyDuration::from(interval)) };
        let fixed_partition = 1 + rng.below(partitions as u64) as u32;
        let key_len = 1 + rng.usize_below(20);
        let key = rng.bytes(key_len);
        builder = match partitioning_kind {
            0 => builder.partitioning(Partitioning::balanced()),
            1 => builder.partitioning(Partitioning::partition_id(fixed_partition)),
            _ => builder.partitioning(Partitioning::messages_key(&key).unwrap()),
        };
        let mut producer = builder.build();
        producer.init().await.map_err(|e| format!("producer init: {e:?}"))?;
        // what was addressed where: id -> (stream, topic, Option<partition>)
        let mut addressed: BTreeMap<u128, (u32, u32, Option<u32>)> = BTreeMap::new();
        let total = *rng.pick(&[1usize, 5, 20, 60, 150]);
        let mut next_id = 5000u128;
        let mut sent = 0usize;
        let mut send_to_used = 0u64;
        while sent < total {
            let k = (1 + rng.usize_below(12)).min(total - sent);
            let specs: Vec<MsgSpec> = (0..k)
                .map(|_| {
                    next_id += 1;
                    MsgSpec { id: next_id, salt: 1, len: *rng.pick(&[5u32, 30, 120]), headers: 0 }
                })
                .collect();
            let messages: Vec<_> = specs.iter().map(|m| m.to_message()).collect();
            let method = rng.below(8);
            let (result, target) = match method {
                0 => {
                    let mut r = Ok(());
                    for m in messages {
                        r = producer.send_one(m).await;
                        if r.is_err() {
                            break;
                        }
                    }
                    (r, (1, 1, if partitioning_kind == 1 { Some(fixed_partition) } else { None }))
                }
                1 => {
                    let p = 1 + rng.below(partitions as u64) as u32;
                    (producer.send_with_partitioning(messages, Some(Arc::new(Partitioning::partition_id(p)))).await, (1, 1, Some(p)))
                }
                2 => {
                    // another stream / topic than the producer's default
                    send_to_used += 1;
                    let (stream, topic, ids) = if rng.chance(0.5) { ("other-stream", "other-topic", (2, 1)) } else { ("sdk-stream", "other-topic", (1, 2)) };
                    let p = 1 + rng.below(partitions as u64) as u32;
                    (
                        producer
                            .send_to(Arc::new(IdRef::Name(stream.into()).to_identifier()), Arc::new(IdRef::Name(topic.into()).to_identifier()), messages, Some(Arc::new(Partitioning::partition_id(p))))
                            .await,
                        (ids.0, ids.1, Some(p)),
                    )
                }
                _ => (producer.send(messages).await, (1, 1, if partitioning_kind == 1 { Some(fixed_partition) } else { None })),
            };
            match result {
                Ok(()) => {
                    for m in &specs {
                        addressed.insert(m.id, target);
                    }
                }
                Err(e) => found.push("producer_send_ok", format!("send_error:{}", e.as_string()), format!("a valid producer send (method {method}) failed: {e:?}")),
            }
            sent += k;
            if rng.chance(0.2) {
                tokio::time::sleep(Duration::from_micros(1 + rng.below(2000))).await;
            }
        }
        w.sim.settle().await;
        extra.insert("produced".into(), addressed.len() as u64);
        extra.insert("send_to_other_target".into(), send_to_used);
        // where did everything land?
        let mut landed: BTreeMap<u128, Vec<(u32, u32, u32, u64)>> = BTreeMap::new();
        let mut content: BTreeMap<(u32, u32, u32), Vec<(u64, u128)>> = BTreeMap::new();
        for (sid, tid) in [(1u32, 1u32), (1, 2), (2, 1)] {
            for p in 1..=partitions {
                let polled = admin.poll_messages(&IdRef::Num(sid).to_identifier(), &IdRef::Num(tid).to_identifier(), Some(p), &Consumer::default(), &PollingStrategy::offset(0), 100_000, false).await;
                if let Ok(polled) = polled {
                    for m in &polled.messages {
                        landed.entry(m.id).or_default().push((sid, tid, p, m.offset));
                        content.entry((sid, tid, p)).or_default().push((m.offset, m.id));
                    }
                }
            }
        }
        for (id, (sid, tid, partition)) in &addressed {
            match landed.get(id).map(|v| v.as_slice()) {
                None => found.push("every_message_arrives", "message_lost", format!("message {id} addressed to {sid}/{tid}/{partition:?} is nowhere")),
                Some([one]) => {
                    if one.0 != *sid || one.1 != *tid {
                        found.push("message_lands_where_addressed", "wrong_stream_or_topic", format!("message {id} was addressed to stream {sid} topic {tid} but landed in {}/{}", one.0, one.1));
                    } else if let Some(p) = partition {
                        if one.2 != *p {
                            found.push("message_lands_where_addressed", "wrong_partition", format!("message {id} was addressed to partition {p} but landed in {}", one.2));
                        }
                    }
                }
                Some(many) => found.push("message_lands_once", "delivered_twice", format!("message {id} is stored {} times: {many:?}", many.len())),
            }
        }
        // ------------------------------------------------------------------ consumer(s) on the default topic
        let group = rng.chance(0.3);
        let consumer_batch = 1 + rng.below(20) as u32;
        let auto_commit = match rng.below(8) {
            0 => AutoCommit::Disabled,
            1 => AutoCommit::When(AutoCommitWhen::PollingMessages),
            2 => AutoCommit::When(AutoCommitWhen::ConsumingAllMessages),
            3 => AutoCommit::When(AutoCommitWhen::ConsumingEachMessage),
            4 => AutoCommit::When(AutoCommitWhen::ConsumingEveryNthMessage(1 + rng.below(4) as u32)),
            5 => AutoCommit::After(AutoCommitAfter::ConsumingEachMessage),
            6 => AutoCommit::After(AutoCommitAfter::ConsumingAllMessages),
            // (the interval committer of IntervalOrWhen/Interval never ends and keeps its client alive after
            // the consumer is dropped; runs with it do not reach quiescence, so it is left out - DESIGN 4.C20)
            _ => AutoCommit::When(AutoCommitWhen::ConsumingAllMessages),
        };
        let commit_on_consumption = !matches!(auto_commit, AutoCommit::When(AutoCommitWhen::PollingMessages));
        let consume_partition = if group { None } else { Some(1 + rng.below(partitions as u64) as u32) };
        let name = if group { "sdk-group" } else { "sdk-consumer" };
        let consumer_identity = if group { Consumer::group(IdRef::Name(name.into()).to_identifier()) } else { Consumer::new(IdRef::Name(name.into()).to_identifier()) };
        let mut yielded: BTreeMap<u32, Vec<u64>> = BTreeMap::new();
        let incarnations = 1 + rng.usize_below(3);
        let mut recreations = 0u64;
        for incarnation in 0..incarnations {
            let consumer_client = new_client(&w).await?;
            let builder = if group { consumer_client.consumer_group(name, "sdk-stream", "sdk-topic") } else { consumer_client.consumer(name, "sdk-stream", "sdk-topic", consume_partition.unwrap()) }.map_err(|e| format!("{e:?}"))?;
            let mut consumer = builder
                .polling_strategy(PollingStrategy::next())
                .batch_size(consumer_batch)
                .auto_commit(auto_commit)
                .auto_join_consumer_group()
                .create_consumer_group_if_not_exists()
                .poll_interval(IggyDuration::from(1_000))
                .build();
            consumer.init().await.map_err(|e| format!("consumer init: {e:?}"))?;
            // what the server holds as committed before this incarnation starts
            let mut committed_before: BTreeMap<u32, Option<u64>> = BTreeMap::new();
            for p in 1..=partitions {
                let info = admin.get_consumer_offset(&consumer_identity, &s1, &IdRef::Num(1).to_identifier(), Some(p)).await.ok().flatten();
                committed_before.insert(p, info.map(|i| i.stored_offset));
            }
            let budget = if incarnation + 1 == incarnations { usize::MAX } else { rng.usize_below(total + 1) };
            let mut taken = 0usize;
            let mut first_of_incarnation: BTreeMap<u32, u64> = BTreeMap::new();
            let mut yielded_now: BTreeMap<u32, Vec<u64>> = BTreeMap::new();
            loop {
                if taken >= budget {
                    break;
                }
                // simulated time only passes when everything is idle: this is "no more messages"
                let next = tokio::time::timeout(Duration::from_millis(300), consumer.next()).await;
                let Ok(Some(item)) = next else { break };
                match item {
                    Ok(message) => {
                        taken += 1;
                        let p = message.partition_id;
                        let offset = message.message.offset;
                        first_of_incarnation.entry(p).or_insert(offset);
                        // within one incarnation: strictly +1; where an incarnation starts is judged below
                        // (right after the last committed offset - uncommitted work is legitimately re-read)
                        let list = yielded_now.entry(p).or_default();
                        if let Some(last) = list.last() {
                            if offset <= *last {
                                found.push("yielded_once_in_order", "repeat_or_reorder", format!("partition {p}: offset {offset} yielded after {last} by the same consumer instance"));
                            } else if offset != *last + 1 {
                                found.push("yielded_once_in_order", "offset_skipped", format!("partition {p}: offset {offset} yielded after {last}"));
                            }
                        }
                        list.push(offset);
                        yielded.entry(p).or_default().push(offset);
                        // with auto-commit disabled the application commits by itself (here: each message)
                        // (the After(..) modes leave the commit to the message handler of `consumer_ext`, which this
                        // scenario does not use: they behave like Disabled on the raw stream)
                        if matches!(auto_commit, AutoCommit::Disabled | AutoCommit::After(_)) {
                            let _ = consumer.store_offset(offset, Some(p)).await;
                        }
                        // the committed offset never exceeds what has been yielded (commit-on-consumption modes)
                        if commit_on_consumption && rng.chance(0.3) {
                            let info = admin.get_consumer_offset(&consumer_identity, &s1, &IdRef::Num(1).to_identifier(), Some(p)).await.ok().flatten();
                            if let Some(info) = info {
                                if info.stored_offset > offset {
                                    found.push("commit_not_beyond_yielded", "committed_ahead_of_consumption", format!("partition {p}: offset {} is committed while the consumer has only been handed {offset}", info.stored_offset));
                                }
                            }
                        }
                    }
                    Err(e) => {
                        found.push("consumer_yields_ok", format!("poll_error:{}", e.as_string()), format!("the consumer stream yielded an error: {e:?}"));
                        break;
                    }
                }
            }
            // a re-created consumer resumes right after its last committed offset
            if incarnation == 0 {
                for (p, first) in &first_of_incarnation {
                    if *first != 0 {
                        found.push("yielded_once_in_order", "does_not_start_at_first_message", format!("partition {p}: the first consumer's first message is offset {first}"));
                    }
                }
            }
            if incarnation > 0 {
                recreations += 1;
                for (p, first) in &first_of_incarnation {
                    match committed_before.get(p).copied().flatten() {
                        Some(c) if *first != c + 1 => found.push("resumes_after_last_commit", if *first > c + 1 { "skipped_uncommitted_work" } else { "reread_committed_work" }, format!("partition {p}: committed {c} before the consumer was re-created, its first message is {first}")),
                        None if *first != 0 => found.push("resumes_after_last_commit", "skipped_uncommitted_work", format!("partition {p}: nothing committed before re-creation, first message is {first}")),
                        _ => {}
                    }
                }
            }
            if std::env::var("VERIF_VERBOSE").is_ok() {
                eprintln!("[sdk] incarnation {incarnation}: budget {budget} committed_before {committed_before:?} yielded_now {yielded_now:?}");
                for p in 1..=partitions {
                    let info = admin.get_consumer_offset(&consumer_identity, &s1, &IdRef::Num(1).to_identifier(), Some(p)).await.ok().flatten();
                    eprintln!("[sdk]   partition {p}: committed after {:?}, stored messages {}", info.map(|i| i.stored_offset), content.get(&(1, 1, p)).map(|v| v.len()).unwrap_or(0));
                }
            }
            drop(consumer);
            // a well-behaved application shuts its client down (the heartbeat task would otherwise keep the
            // connection - and with it a group membership - alive for ever)
            let _ = Client::shutdown(&consumer_client).await;
            drop(consumer_client);
            w.sim.settle().await;
        }
        extra.insert("consumer_recreations".into(), recreations);
        extra.insert("consumed".into(), yielded.values().map(|v| v.len() as u64).sum());
        // with the last incarnation drained, every message of the consumed partitions was yielded
        for p in 1..=partitions {
            if consume_partition.map(|c| c != p).unwrap_or(false) {
                continue;
            }
            let stored = content.get(&(1, 1, p)).map(|v| v.len()).unwrap_or(0);
            let got = yielded.get(&p).map(|v| v.len()).unwrap_or(0);
            let distinct: std::collections::BTreeSet<u64> = yielded.get(&p).map(|v| v.iter().copied().collect()).unwrap_or_default();
            // commit-when-polling is at-most-once across a re-creation; everything else must lose nothing
            if distinct.len() < stored && (commit_on_consumption || incarnations == 1) {
                found.push("every_message_yielded", format!("messages_never_yielded@{}", if group { "consumer_group" } else { "single_consumer" }), format!("partition {p} stores {stored} messages, the consumer yielded {got} ({} distinct)", distinct.len()));
            }
        }
        drop(producer);
        drop(client);
        drop(admin);
        let _ = w.stop(StopKind::GracefulDrained).await;
        Ok::<(Found, BTreeMap<String, u64>, String), String>((found, extra, format!("b{batch_size}-i{interval}-pk{partitioning_kind}-p{partitions}-g{}-cb{consumer_batch}-ac{auto_commit:?}-inc{incarnations}-n{}", group as u8, total / 10)))
    });
    out.steps = sim.steps();
    if sim.inner.deferred_writes.get() > 0 {
        out.extra.insert("file_writes_completed_later".into(), sim.inner.deferred_writes.get());
    }
    out.sim_micros = sim.inner.final_sim_micros.get();
    out.trace_hash = format!("{:016x}", sim.trace_hash());
    out.multi_choice_steps = sim.inner.multi_choice_steps.get();
    out.yields = sim.inner.yields.get();
    out.connections = sim.inner.connections.get();
    for p in sim.take_panics() {
        out.violations.push(Violation { prop: "C20", oracle: "no_panic", tag: crate::harness::panic_tag(&p), detail: p.chars().take(200).collect(), op_index: 0 });
    }
    match result {
        Ok(Ok((found, extra, shape))) => {
            for (oracle, tag, detail) in found.v {
                out.violations.push(Violation { prop: "C20", oracle, tag, detail, op_index: 0 });
            }
            out.nontrivial = extra.get("produced").copied().unwrap_or(0) >= 1 && extra.get("consumed").copied().unwrap_or(0) >= 1;
            out.extra = extra;
            out.shape = format!("{shape}|{}|y{}", case.policy, case.yield_prob);
        }
        Ok(Err(e)) => out.harness_error = Some(e),
        Err(stop) => match stop {
            _ if std::env::var("VERIF_VERBOSE").is_ok() => {
                eprintln!("[sdk] stopped: {stop:?}; busiest actors in the second half: {:?}", sim.inner.actor_steps.borrow());
            }
            crate::rt::SimStop::Escaped(what) => out.harness_error = Some(format!("simulation escaped: {what}")),
            crate::rt::SimStop::MainPanicked(message) => crate::scen::main_panicked("C20", &message, &mut out),
            other => out.violations.push(Violation { prop: "C20", oracle: "bounded_liveness", tag: "run_never_ends".into(), detail: format!("{other:?}"), op_index: 0 }),
        },
    }
    let _ = std::fs::remove_dir_all(&dir);
    out
}
