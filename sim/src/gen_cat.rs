//! Generation of catalogue, consumer-group and user operations.

use crate::gen::Gen;
use crate::model::Model;
use crate::ops::*;

pub fn catalogue_op(g: &mut Gen, model: &Model, c: usize) -> Op {
    let streams: Vec<(u32, String)> = model.streams.values().map(|s| (s.id, s.name.clone())).collect();
    let pick_stream = |g: &mut Gen| -> Option<(u32, String)> { if streams.is_empty() { None } else { Some(g.rng.pick(&streams).clone()) } };
    let sref = |g: &mut Gen, s: &(u32, String)| if g.rng.chance(g.cfg.named_ids_chance) { IdRef::Name(s.1.clone()) } else { IdRef::Num(s.0) };
    let invalid = g.rng.chance(g.cfg.invalid_chance);
    match g.rng.below(12) {
        0 | 1 => {
            // create stream: auto id, explicit free id, or (invalid) taken id / taken name
            let id = match g.rng.below(3) {
                0 => None,
                _ => Some(if invalid && !streams.is_empty() { g.rng.pick(&streams).0 } else { 1 + g.rng.below(12) as u32 }),
            };
            let name = if invalid && !streams.is_empty() && g.rng.chance(0.5) { g.rng.pick(&streams).1.clone() } else { g.fresh_name("stream-") };
            Op::CreateStream { c, id, name }
        }
        2 => match pick_stream(g) {
            Some(s) => {
                let name = if invalid && streams.len() > 1 { g.rng.pick(&streams).1.clone() } else if g.rng.chance(0.2) { s.1.clone() } else { g.fresh_name("stream-") };
                Op::UpdateStream { c, stream: sref(g, &s), name }
            }
            None => Op::GetStreams { c },
        },
        3 => match pick_stream(g) {
            Some(s) if streams.len() > 1 || g.rng.chance(0.3) => Op::DeleteStream { c, stream: sref(g, &s) },
            _ => Op::GetStreams { c },
        },
        4 | 5 | 6 => match pick_stream(g) {
            Some(s) => {
                let topics: Vec<(u32, String)> = model.streams[&s.0].topics.values().map(|t| (t.id, t.name.clone())).collect();
                let id = match g.rng.below(3) {
                    0 => None,
                    _ => Some(if invalid && !topics.is_empty() { g.rng.pick(&topics).0 } else { 1 + g.rng.below(8) as u32 }),
                };
                let name = if invalid && !topics.is_empty() && g.rng.chance(0.5) { g.rng.pick(&topics).1.clone() } else { g.fresh_name("topic-") };
                let expiry = g.rng.pick(&g.cfg.topic_expiry.clone()).clone();
                let max_size = g.rng.pick(&g.cfg.topic_max_size.clone()).clone();
                Op::CreateTopic { c, stream: sref(g, &s), id, name, partitions: g.rng.below(4) as u32, expiry, max_size, replication: if g.rng.chance(0.5) { None } else { Some(1 + g.rng.below(3) as u8) }, compression: 1 }
            }
            None => Op::CreateStream { c, id: None, name: g.fresh_name("stream-") },
        },
        7 | 8 => match pick_stream(g) {
            Some(s) => {
                let topics: Vec<(u32, String)> = model.streams[&s.0].topics.values().map(|t| (t.id, t.name.clone())).collect();
                if topics.is_empty() {
                    return Op::GetStream { c, stream: sref(g, &s) };
                }
                let t = g.rng.pick(&topics).clone();
                let tref = if g.rng.chance(g.cfg.named_ids_chance) { IdRef::Name(t.1.clone()) } else { IdRef::Num(t.0) };
                let tm = &model.streams[&s.0].topics[&t.0];
                let name = if invalid && topics.len() > 1 { g.rng.pick(&topics).1.clone() } else if g.rng.chance(0.3) { t.1.clone() } else { g.fresh_name("topic-") };
                let expiry = g.rng.pick(&g.cfg.topic_expiry.clone()).clone();
                let max_size = g.rng.pick(&g.cfg.topic_max_size.clone()).clone();
                Op::UpdateTopic { c, stream: sref(g, &s), topic: tref, name, expiry, max_size, replication: Some(tm.replication), compression: tm.compression }
            }
            None => Op::GetStreams { c },
        },
        9 => match pick_stream(g) {
            Some(s) => {
                let topics: Vec<(u32, String)> = model.streams[&s.0].topics.values().map(|t| (t.id, t.name.clone())).collect();
                if topics.is_empty() {
                    return Op::GetStream { c, stream: sref(g, &s) };
                }
                let t = g.rng.pick(&topics).clone();
                let tref = if g.rng.chance(g.cfg.named_ids_chance) { IdRef::Name(t.1.clone()) } else { IdRef::Num(t.0) };
                Op::DeleteTopic { c, stream: sref(g, &s), topic: tref }
            }
            None => Op::GetStreams { c },
        },
        10 => {
            // addressed to something that does not exist
            Op::GetTopic { c, stream: IdRef::Num(90 + g.rng.below(5) as u32), topic: IdRef::Name("nope".into()) }
        }
        _ => match pick_stream(g) {
            Some(s) => Op::GetStream { c, stream: sref(g, &s) },
            None => Op::GetStreams { c },
        },
    }
}

pub fn group_op(g: &mut Gen, model: &Model, c: usize) -> Op {
    crate::gen_grp::group_op(g, model, c)
}

pub fn user_op(g: &mut Gen, model: &Model, c: usize) -> Op {
    crate::gen_grp::user_op(g, model, c)
}
