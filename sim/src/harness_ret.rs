//! Retention: one maintenance pass, judged against what the statements of C14 and C15 allow.

use crate::harness::*;
use crate::ops::IdRef;
use crate::world::Job;
use iggy::client::MessageClient;
use iggy::consumer::Consumer;
use iggy::messages::poll_messages::PollingStrategy;
use server::verif::{inspect_partition, PartitionView};
use std::collections::BTreeMap;

async fn views(h: &Harness) -> BTreeMap<(u32, u32, u32), PartitionView> {
    let mut out = BTreeMap::new();
    let Some(shared) = h.world.shared() else { return out };
    let system = shared.read().await;
    for s in h.model.streams.values() {
        for t in s.topics.values() {
            for p in t.partitions.keys() {
                if let Some(view) = inspect_partition(&system, s.id, t.id, *p).await {
                    out.insert((s.id, t.id, *p), view);
                }
            }
        }
    }
    out
}

pub async fn maintain_pass(h: &mut Harness) {
    if h.clients[0].is_none() && h.connect_client(0, true).await.is_err() {
        return;
    }
    h.sim.settle().await;
    let before = views(h).await;
    // learn the timestamp of the newest message of every segment that could be judged
    for ((sid, tid, p), view) in &before {
        for seg in &view.segments {
            let has_data = seg.size_bytes > 0;
            if !has_data {
                continue;
            }
            let known = h.model.streams[sid].topics[tid].partitions[p].msgs.get(seg.current_offset as usize).map(|m| m.ts.is_some()).unwrap_or(true);
            if !known {
                let client = h.clients[0].as_ref().unwrap();
                if let Ok(polled) = client
                    .poll_messages(&IdRef::Num(*sid).to_identifier(), &IdRef::Num(*tid).to_identifier(), Some(*p), &Consumer::default(), &PollingStrategy::offset(seg.current_offset), 1, false)
                    .await
                {
                    if let Some(m) = polled.messages.first() {
                        if m.offset == seg.current_offset {
                            if let Some(mm) = h.pm(*sid, *tid, *p).msgs.get_mut(m.offset as usize) {
                                if mm.ts.is_none() {
                                    mm.ts = Some(m.timestamp);
                                }
                            }
                        }
                    }
                }
            }
        }
    }
    // sizes the server itself reports, for the "almost full" judgement of C15
    let mut topic_sizes: BTreeMap<(u32, u32), u64> = BTreeMap::new();
    for ((sid, tid, _), view) in &before {
        *topic_sizes.entry((*sid, *tid)).or_insert(0) += view.segments.iter().map(|s| s.size_bytes).sum::<u64>();
    }
    h.world.run_job(Job::Maintain).await;
    h.sim.settle().await;
    let now = h.sim.now_micros();
    h.check_panics("C14");
    let after = views(h).await;
    for (key, view_before) in &before {
        let (sid, tid, p) = *key;
        let Some(view_after) = after.get(key) else { continue };
        let topic = h.model.streams[&sid].topics[&tid].clone();
        let expiry = topic.expiry_micros;
        let almost_full = match topic.max_size {
            Some(limit) => topic_sizes.get(&(sid, tid)).copied().unwrap_or(0) >= (limit as f64 * 0.9) as u64,
            None => false,
        };
        let size_cleanup_allowed = almost_full && h.model.delete_oldest;
        let survivors: Vec<u64> = view_after.segments.iter().map(|s| s.start_offset).collect();
        let count = view_before.segments.len();
        let mut deleted_ranges: Vec<(u64, u64)> = Vec::new();
        let mut deleted_by_size = 0;
        for (index, seg) in view_before.segments.iter().enumerate() {
            // a segment that kept its start offset and is still listed survived
            if survivors.contains(&seg.start_offset) {
                continue;
            }
            let has_data = seg.size_bytes > 0;
            let is_last = index + 1 == count;
            if has_data {
                deleted_ranges.push((seg.start_offset, seg.current_offset));
            }
            h.stats.probe("segment_deleted_by_maintenance");
            let newest_ts = h.model.streams[&sid].topics[&tid].partitions[&p].msgs.get(seg.current_offset as usize).and_then(|m| m.ts);
            let expired = expiry > 0 && seg.is_closed && has_data && newest_ts.map(|ts| ts + expiry <= now).unwrap_or(true);
            let by_size = size_cleanup_allowed && index == 0 && seg.is_closed;
            if !seg.is_closed && has_data {
                h.violate("C14", "open_segment_never_deleted", if is_last { "open_last_segment_deleted" } else { "open_segment_deleted" }, format!("maintenance deleted the unclosed segment {} ({}..={}) of {sid}/{tid}/{p}", seg.start_offset, seg.start_offset, seg.current_offset));
                continue;
            }
            if !has_data {
                continue;
            }
            if expired {
                h.stats.probe("segment_deleted_expired");
                continue;
            }
            if by_size {
                deleted_by_size += 1;
                h.stats.probe("segment_deleted_by_size");
                continue;
            }
            if expiry == 0 && topic.max_size.is_none() {
                h.violate("C14", "never_expiring_topic_loses_nothing", "deleted_without_expiry", format!("segment {}..={} of never-expiring unlimited {sid}/{tid}/{p} deleted", seg.start_offset, seg.current_offset));
            } else if topic.max_size.is_some() && !(expiry > 0) {
                h.violate("C15", "size_cleanup_only_oldest_closed", if index != 0 { "not_the_oldest" } else if !h.model.delete_oldest { "deletion_disabled" } else { "not_almost_full" }, format!("size clean-up deleted segment #{index} {}..={} of {sid}/{tid}/{p} (almost_full={almost_full}, delete_oldest={})", seg.start_offset, seg.current_offset, h.model.delete_oldest));
            } else {
                h.violate("C14", "only_expired_closed_segments", "young_segment_deleted", format!("segment {}..={} of {sid}/{tid}/{p} deleted: newest message ts {newest_ts:?} + expiry {expiry} > now {now}", seg.start_offset, seg.current_offset));
            }
        }
        // lower bound: a topic at or above its limit (so certainly "almost full"), deletion enabled, never
        // expiring (so the expiry clean-up of the same pass cannot have made room first): the oldest segment of
        // the partition, if closed, is removed by the pass - otherwise the limit is not enforced at all
        let clearly_full = match topic.max_size {
            Some(limit) => topic_sizes.get(&(sid, tid)).copied().unwrap_or(0) >= limit,
            None => false,
        };
        if clearly_full && h.model.delete_oldest && expiry == 0 {
            if let Some(first) = view_before.segments.first() {
                if first.is_closed && first.size_bytes > 0 && view_before.segments.len() > 1 {
                    if survivors.contains(&first.start_offset) {
                        h.violate("C15", "size_cleanup_happens", "oldest_closed_segment_kept", format!("topic {sid}/{tid} is at or above its limit ({} >= {:?}) with deletion enabled, but the pass kept the oldest closed segment {}..={} of partition {p}", topic_sizes.get(&(sid, tid)).copied().unwrap_or(0), topic.max_size, first.start_offset, first.current_offset));
                    } else {
                        h.stats.probe("size_cleanup_removed_oldest_of_full_topic");
                    }
                }
            }
        }
        if deleted_by_size > 1 {
            h.violate("C15", "size_cleanup_only_oldest_closed", "more_than_one_segment", format!("size clean-up removed {deleted_by_size} segments of {sid}/{tid}/{p} in one pass"));
        }
        // the partition's current offset must not move
        if view_after.current_offset != view_before.current_offset {
            h.violate("C14", "current_offset_unchanged", if view_after.current_offset < view_before.current_offset { "rewound" } else { "advanced" }, format!("maintenance moved the current offset of {sid}/{tid}/{p} from {} to {}", view_before.current_offset, view_after.current_offset));
        }
        if deleted_ranges.is_empty() {
            continue;
        }
        // step the model: only a prefix of the retained range can be represented
        let pm = h.pm(sid, tid, p);
        deleted_ranges.sort();
        let mut first = pm.first_retained;
        let mut hole = false;
        for (lo, hi) in &deleted_ranges {
            if *lo <= first {
                first = first.max(hi + 1);
            } else {
                hole = true;
            }
        }
        pm.first_retained = first;
        if hole {
            pm.tainted = true;
            h.stats.probe("retention_left_a_hole");
        }
        if view_after.segments.iter().all(|s| s.size_bytes == 0) {
            h.stats.probe("everything_deleted_by_maintenance");
        }
    }
}
