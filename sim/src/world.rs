//! The simulated deployment: one server process (real `System`, real binary handlers) with its
//! life cycle — start, graceful stop, kill, restart — plus the clients that talk to it.

use crate::rng::Rng;
use crate::rt::Sim;
use iggy::client::{Client, UserClient};
use iggy::confirmation::Confirmation;
use iggy::error::IggyError;
use iggy::tcp::client::TcpClient;
use iggy::tcp::config::{TcpClientConfig, TcpClientReconnectionConfig};
use iggy::utils::byte_size::IggyByteSize;
use iggy::utils::duration::IggyDuration;
use iggy::utils::expiry::IggyExpiry;
use iggy::utils::topic_size::MaxTopicSize;
use serde::{Deserialize, Serialize};
use server::channels::commands::clean_personal_access_tokens::{
    CleanPersonalAccessTokensCommand, CleanPersonalAccessTokensExecutor,
};
use server::channels::commands::maintain_messages::MaintainMessagesExecutor;
use server::channels::commands::save_messages::{SaveMessagesCommand, SaveMessagesExecutor};
use server::channels::commands::verify_heartbeats::VerifyHeartbeatsExecutor;
use server::channels::server_command::ServerCommand;
use server::configs::resource_quota::MemoryResourceQuota;
use server::configs::server::{DataMaintenanceConfig, PersonalAccessTokenConfig};
use server::configs::system::SystemConfig;
use server::streaming::systems::system::{SharedSystem, System};
use std::cell::{Cell, RefCell};
use std::path::PathBuf;
use std::rc::Rc;
use std::sync::Arc;

/// Every storage knob a run draws (all legal under `configs/validators.rs`).
#[derive(Clone, Debug, Serialize, Deserialize, PartialEq)]
pub struct Knobs {
    pub messages_required_to_save: u32,
    pub segment_size: u64,
    pub cache_enabled: bool,
    pub cache_size: u64,
    pub cache_indexes: bool,
    pub partition_fsync: bool,
    pub state_fsync: bool,
    pub no_wait: bool,
    pub dedup: bool,
    pub encryption: bool,
    pub encryption_key: String,
    pub validate_checksum: bool,
    pub recreate_missing_state: bool,
    pub delete_oldest_segments: bool,
    /// server default message expiry in micros (0 = never)
    pub default_expiry_micros: u64,
    /// server default max topic size (0 = unlimited)
    pub default_max_topic_size: u64,
    pub max_tokens_per_user: u32,
    /// capacity of the deduplicator (0 = unbounded, which `Partition::create` maps to no limit)
    #[serde(default = "default_dedup_max_entries")]
    pub dedup_max_entries: u64,
    /// time-to-live of remembered ids in micros (0 = none); moka reads its own clock, so a non-zero value
    /// never elapses inside a run - it only selects the constructor path
    #[serde(default)]
    pub dedup_expiry_micros: u64,
}

fn default_dedup_max_entries() -> u64 {
    1_000_000
}

impl Default for Knobs {
    fn default() -> Knobs {
        Knobs {
            messages_required_to_save: 5000,
            segment_size: 1_000_000_000,
            cache_enabled: false,
            cache_size: 4 * 1024 * 1024,
            cache_indexes: true,
            partition_fsync: false,
            state_fsync: false,
            no_wait: false,
            dedup: false,
            encryption: false,
            encryption_key: String::new(),
            validate_checksum: false,
            recreate_missing_state: true,
            delete_oldest_segments: false,
            default_expiry_micros: 0,
            default_max_topic_size: 0,
            max_tokens_per_user: 100,
            dedup_max_entries: 1_000_000,
            dedup_expiry_micros: 0,
        }
    }
}

impl Knobs {
    /// Swarm-style draw of a storage configuration.
    pub fn draw(rng: &mut Rng) -> Knobs {
        let mut k = Knobs {
            messages_required_to_save: *rng.pick(&[1, 2, 3, 5, 10, 50, 1000]),
            segment_size: *rng.pick(&[400, 1024, 4096, 65536, 8 * 1024 * 1024]),
            cache_enabled: rng.chance(0.4),
            cache_size: *rng.pick(&[2048, 16 * 1024, 1024 * 1024]),
            cache_indexes: rng.chance(0.5),
            partition_fsync: rng.chance(0.3),
            state_fsync: rng.chance(0.3),
            no_wait: rng.chance(0.25),
            ..Default::default()
        };
        k.validate_checksum = rng.chance(0.2);
        k.dedup_max_entries = *rng.pick(&[0, 1_000_000, 1_000_000]);
        k.dedup_expiry_micros = *rng.pick(&[0, 0, 86_400_000_000]);
        k
    }

    pub fn system_config(&self, path: &str) -> SystemConfig {
        let mut config = SystemConfig::default();
        config.path = path.to_string();
        config.cache.enabled = self.cache_enabled;
        config.cache.size = MemoryResourceQuota::Bytes(IggyByteSize::from(self.cache_size));
        config.partition.messages_required_to_save = self.messages_required_to_save;
        config.partition.enforce_fsync = self.partition_fsync;
        config.partition.validate_checksum = self.validate_checksum;
        config.state.enforce_fsync = self.state_fsync;
        config.segment.size = IggyByteSize::from(self.segment_size);
        config.segment.cache_indexes = self.cache_indexes;
        config.segment.server_confirmation = if self.no_wait {
            Confirmation::NoWait
        } else {
            Confirmation::Wait
        };
        config.segment.message_expiry = if self.default_expiry_micros == 0 {
            IggyExpiry::NeverExpire
        } else {
            IggyExpiry::ExpireDuration(IggyDuration::from(self.default_expiry_micros))
        };
        config.segment.archive_expired = false;
        config.topic.max_size = if self.default_max_topic_size == 0 {
            MaxTopicSize::Unlimited
        } else {
            MaxTopicSize::Custom(IggyByteSize::from(self.default_max_topic_size))
        };
        config.topic.delete_oldest_segments = self.delete_oldest_segments;
        config.message_deduplication.enabled = self.dedup;
        config.message_deduplication.max_entries = self.dedup_max_entries;
        config.message_deduplication.expiry = IggyDuration::from(self.dedup_expiry_micros);
        config.encryption.enabled = self.encryption;
        config.encryption.key = self.encryption_key.clone();
        config.recovery.recreate_missing_state = self.recreate_missing_state;
        config
    }
}

#[derive(Clone, Copy, Debug, PartialEq, Eq, Serialize, Deserialize)]
pub enum Job {
    Save,
    Maintain,
    CleanTokens,
    VerifyHeartbeats,
}

#[derive(Clone, Copy, Debug, PartialEq, Eq, Serialize, Deserialize)]
pub enum StopKind {
    /// `main.rs`: write lock, `System::shutdown`, then the runtime is dropped at once.
    GracefulImmediate,
    /// As above, but other runtime workers got to drain queued work before the process exited.
    GracefulDrained,
    /// SIGKILL: nothing runs any more.
    Kill,
}

pub struct World {
    pub sim: Sim,
    pub dir: PathBuf,
    pub knobs: RefCell<Knobs>,
    pub system: RefCell<Option<SharedSystem>>,
    pub incarnation: Cell<u32>,
    pub starts: Cell<u32>,
    pub heartbeat_interval_micros: Cell<u64>,
    /// serve the HTTP API too (hook H8)
    pub http_enabled: Cell<bool>,
}

pub const ROOT_USER: &str = "iggy";
pub const ROOT_PASSWORD: &str = "iggy";

impl World {
    pub fn new(sim: Sim, dir: PathBuf, knobs: Knobs) -> Rc<World> {
        Rc::new(World {
            sim,
            dir,
            knobs: RefCell::new(knobs),
            system: RefCell::new(None),
            incarnation: Cell::new(0),
            starts: Cell::new(0),
            heartbeat_interval_micros: Cell::new(5_000_000),
            http_enabled: Cell::new(false),
        })
    }

    pub fn group(&self) -> u32 {
        100 + self.incarnation.get()
    }

    pub fn data_path(&self) -> String {
        self.dir.join("local_data").to_string_lossy().to_string()
    }

    pub fn is_up(&self) -> bool {
        self.system.borrow().is_some()
    }

    pub fn shared(&self) -> Option<SharedSystem> {
        self.system.borrow().clone()
    }

    /// Boots a server process on the data directory: new `System`, real `init`, listener up.
    pub async fn start(self: &Rc<Self>) -> Result<(), IggyError> {
        assert!(!self.is_up(), "server already running");
        self.incarnation.set(self.incarnation.get() + 1);
        self.starts.set(self.starts.get() + 1);
        let group = self.group();
        server::verif::reset_process_globals();
        crate::determinism::reset_hash_seeds();
        let config = Arc::new(self.knobs.borrow().system_config(&self.data_path()));
        let pat = PersonalAccessTokenConfig {
            max_tokens_per_user: self.knobs.borrow().max_tokens_per_user,
            ..PersonalAccessTokenConfig::default()
        };
        let booted = self
            .sim
            .run_as(group, "server-init", async move {
                let system = System::new(config, DataMaintenanceConfig::default(), pat);
                let shared = SharedSystem::new(system);
                let result = shared.write().await.init().await;
                result.map(|_| shared)
            })
            .await;
        match booted {
            Some(Ok(shared)) => {
                *self.system.borrow_mut() = Some(shared.clone());
                let sim = self.sim.clone();
                self.sim.set_listener(Some(Rc::new(move |stream, address| {
                    let system = shared.clone();
                    sim.spawn(group, "conn", async move {
                        server::verif::serve_connection(address, stream, system).await;
                    });
                })));
                if self.http_enabled.get() {
                    self.start_http(group).await;
                }
                Ok(())
            }
            Some(Err(error)) => {
                self.sim.kill_group(group);
                Err(error)
            }
            None => {
                self.sim.kill_group(group);
                Err(IggyError::Error)
            }
        }
    }

    /// The HTTP API of this incarnation: the real router (hook H8), called in-process. Every request runs as
    /// an actor of the server's group.
    async fn start_http(self: &Rc<Self>, group: u32) {
        let Some(shared) = self.shared() else { return };
        let router = self
            .sim
            .run_as(group, "http-init", async move {
                let mut config = server::configs::http::HttpConfig::default();
                // `jsonwebtoken` validates `exp` against the real clock; the simulated epoch lies before it
                config.jwt.access_token_expiry = iggy::utils::expiry::IggyExpiry::NeverExpire;
                config.metrics.enabled = false;
                config.cors.enabled = false;
                server::http::http_server::verif_router(config, shared).await
            })
            .await;
        let Some(router) = router else { return };
        let sim = self.sim.clone();
        self.sim.set_http_handler(Some(Rc::new(move |request: reqwest::Request| {
            let router = router.clone();
            let sim = sim.clone();
            Box::pin(async move {
                let mut target = request.url().path().to_string();
                if let Some(query) = request.url().query() {
                    target.push('?');
                    target.push_str(query);
                }
                let mut builder = http::Request::builder().method(request.method().clone()).uri(target);
                for (name, value) in request.headers() {
                    builder = builder.header(name, value);
                }
                let body = request.body().and_then(|b| b.as_bytes()).map(|b| b.to_vec()).unwrap_or_default();
                let mut req = builder.body(axum::body::Body::from(body)).map_err(|e| e.to_string())?;
                req.extensions_mut().insert(axum::extract::ConnectInfo(std::net::SocketAddr::from(([127, 0, 0, 1], 40_000))));
                let answer = sim
                    .run_as(group, "http-request", async move {
                        let response = match tower::ServiceExt::oneshot(router, req).await {
                            Ok(response) => response,
                            Err(never) => match never {},
                        };
                        let (parts, body) = response.into_parts();
                        let bytes = http_body_util::BodyExt::collect(body).await.map(|c| c.to_bytes().to_vec()).unwrap_or_default();
                        (parts.status, parts.headers, bytes)
                    })
                    .await;
                match answer {
                    Some((status, headers, bytes)) => {
                        let mut response = http::Response::builder().status(status);
                        for (name, value) in headers.iter() {
                            response = response.header(name, value);
                        }
                        let response = response.body(bytes).map_err(|e| e.to_string())?;
                        Ok(reqwest::Response::from(response))
                    }
                    None => Err("the request died with the server".to_string()),
                }
            })
        })));
    }

    /// Stops the server process; only what reached the files survives.
    pub async fn stop(self: &Rc<Self>, kind: StopKind) -> Result<(), IggyError> {
        let Some(shared) = self.system.borrow_mut().take() else {
            return Ok(());
        };
        let group = self.group();
        self.sim.set_listener(None);
        self.sim.set_http_handler(None);
        let mut result = Ok(());
        if kind != StopKind::Kill {
            let system = shared.clone();
            let outcome = self
                .sim
                .run_as(group, "server-shutdown", async move {
                    let mut system = system.write().await;
                    system.shutdown().await
                })
                .await;
            result = match outcome {
                Some(r) => r,
                None => Err(IggyError::Error),
            };
            if kind == StopKind::GracefulDrained {
                self.sim.settle().await;
            }
        }
        // writes that were handed over: a process that exits normally performs them (tokio runs its
        // mandatory blocking tasks to completion), a killed one does not
        if kind == StopKind::Kill {
            iggy::verif::fs::drop_all_pending_writes();
        } else {
            iggy::verif::fs::land_all_pending_writes();
        }
        // the process dies: destructors are inert, nothing is spawned, no file is touched
        self.sim.set_dead(true);
        self.sim.kill_group(group);
        drop(shared);
        self.sim.set_dead(false);
        result
    }

    pub async fn restart(self: &Rc<Self>, kind: StopKind) -> Result<(), IggyError> {
        self.stop(kind).await?;
        self.start().await
    }

    /// Runs one pass of a background job exactly as its channel consumer would.
    pub async fn run_job(self: &Rc<Self>, job: Job) {
        let Some(shared) = self.shared() else { return };
        let heartbeat = self.heartbeat_interval_micros.get();
        self.sim
            .run_as(self.group(), "job", async move {
                match job {
                    Job::Save => {
                        SaveMessagesExecutor
                            .execute(&shared, SaveMessagesCommand { enforce_fsync: false })
                            .await
                    }
                    Job::Maintain => {
                        MaintainMessagesExecutor
                            .execute(&shared, server::verif::maintain_messages_command(true, false))
                            .await
                    }
                    Job::CleanTokens => {
                        CleanPersonalAccessTokensExecutor
                            .execute(&shared, CleanPersonalAccessTokensCommand)
                            .await
                    }
                    Job::VerifyHeartbeats => {
                        VerifyHeartbeatsExecutor
                            .execute(
                                &shared,
                                server::verif::verify_heartbeats_command(IggyDuration::from(
                                    (heartbeat as f64 * 1.2) as u64,
                                )),
                            )
                            .await
                    }
                }
            })
            .await;
    }

    pub fn client_config(&self, auto_login: bool, reconnect: bool) -> TcpClientConfig {
        TcpClientConfig {
            server_address: "sim".to_string(),
            auto_login: if auto_login {
                iggy::client::AutoLogin::Enabled(iggy::client::Credentials::UsernamePassword(
                    ROOT_USER.to_string(),
                    ROOT_PASSWORD.to_string(),
                ))
            } else {
                iggy::client::AutoLogin::Disabled
            },
            reconnection: TcpClientReconnectionConfig {
                enabled: reconnect,
                max_retries: Some(3),
                interval: IggyDuration::from(1_000_000),
                reestablish_after: IggyDuration::from(0),
            },
            heartbeat_interval: IggyDuration::from(self.heartbeat_interval_micros.get()),
            ..TcpClientConfig::default()
        }
    }

    /// A connected client logged in as root (the real SDK `TcpClient`).
    pub async fn root_client(&self) -> Result<TcpClient, IggyError> {
        let client = TcpClient::create(Arc::new(self.client_config(false, false)))?;
        Client::connect(&client).await?;
        client.login_user(ROOT_USER, ROOT_PASSWORD).await?;
        Ok(client)
    }

    pub async fn anonymous_client(&self) -> Result<TcpClient, IggyError> {
        let client = TcpClient::create(Arc::new(self.client_config(false, false)))?;
        Client::connect(&client).await?;
        Ok(client)
    }
}
