//! Wire-level probes: requests without authentication (C09) and frames that are not valid requests (C13).

use crate::harness::*;
use crate::ops::IdRef;
use crate::rawconn::RawConn;
use bytes::Bytes;
use iggy::bytes_serializable::BytesSerializable;
use iggy::command::*;
use iggy::consumer::Consumer;
use iggy::messages::poll_messages::PollingStrategy;
use iggy::messages::send_messages::{Message, Partitioning};
use iggy::utils::expiry::IggyExpiry;
use iggy::utils::topic_size::MaxTopicSize;

/// (code, payload, mutating) of a well-formed request of every kind.
fn request(which: u32) -> (u32, Bytes, bool, &'static str) {
    let s1 = IdRef::Num(1).to_identifier();
    let t1 = IdRef::Num(1).to_identifier();
    match which % 30 {
        0 => (GET_STATS_CODE, Bytes::new(), false, "get_stats"),
        1 => (GET_ME_CODE, Bytes::new(), false, "get_me"),
        2 => (GET_CLIENTS_CODE, Bytes::new(), false, "get_clients"),
        3 => (GET_USERS_CODE, Bytes::new(), false, "get_users"),
        4 => (GET_USER_CODE, iggy::users::get_user::GetUser { user_id: IdRef::Num(1).to_identifier() }.to_bytes(), false, "get_user"),
        5 => (
            CREATE_USER_CODE,
            iggy::users::create_user::CreateUser { username: "intruder".into(), password: "intruder-pw".into(), status: iggy::models::user_status::UserStatus::Active, permissions: Some(iggy::models::permissions::Permissions::root()) }.to_bytes(),
            true,
            "create_user",
        ),
        6 => (DELETE_USER_CODE, iggy::users::delete_user::DeleteUser { user_id: IdRef::Num(2).to_identifier() }.to_bytes(), true, "delete_user"),
        7 => (GET_STREAMS_CODE, Bytes::new(), false, "get_streams"),
        8 => (GET_STREAM_CODE, iggy::streams::get_stream::GetStream { stream_id: s1.clone() }.to_bytes(), false, "get_stream"),
        9 => (CREATE_STREAM_CODE, iggy::streams::create_stream::CreateStream { stream_id: Some(66), name: "intruder-stream".into() }.to_bytes(), true, "create_stream"),
        10 => (DELETE_STREAM_CODE, iggy::streams::delete_stream::DeleteStream { stream_id: s1.clone() }.to_bytes(), true, "delete_stream"),
        11 => (PURGE_STREAM_CODE, iggy::streams::purge_stream::PurgeStream { stream_id: s1.clone() }.to_bytes(), true, "purge_stream"),
        12 => (GET_TOPICS_CODE, iggy::topics::get_topics::GetTopics { stream_id: s1.clone() }.to_bytes(), false, "get_topics"),
        13 => (GET_TOPIC_CODE, iggy::topics::get_topic::GetTopic { stream_id: s1.clone(), topic_id: t1.clone() }.to_bytes(), false, "get_topic"),
        14 => (
            CREATE_TOPIC_CODE,
            iggy::topics::create_topic::CreateTopic { stream_id: s1.clone(), topic_id: Some(66), partitions_count: 1, compression_algorithm: Default::default(), message_expiry: IggyExpiry::NeverExpire, max_topic_size: MaxTopicSize::Unlimited, replication_factor: None, name: "intruder-topic".into() }.to_bytes(),
            true,
            "create_topic",
        ),
        15 => (DELETE_TOPIC_CODE, iggy::topics::delete_topic::DeleteTopic { stream_id: s1.clone(), topic_id: t1.clone() }.to_bytes(), true, "delete_topic"),
        16 => (PURGE_TOPIC_CODE, iggy::topics::purge_topic::PurgeTopic { stream_id: s1.clone(), topic_id: t1.clone() }.to_bytes(), true, "purge_topic"),
        17 => (CREATE_PARTITIONS_CODE, iggy::partitions::create_partitions::CreatePartitions { stream_id: s1.clone(), topic_id: t1.clone(), partitions_count: 1 }.to_bytes(), true, "create_partitions"),
        18 => (DELETE_PARTITIONS_CODE, iggy::partitions::delete_partitions::DeletePartitions { stream_id: s1.clone(), topic_id: t1.clone(), partitions_count: 1 }.to_bytes(), true, "delete_partitions"),
        19 => (
            POLL_MESSAGES_CODE,
            iggy::messages::poll_messages::PollMessages { consumer: Consumer::default(), stream_id: s1.clone(), topic_id: t1.clone(), partition_id: Some(1), strategy: PollingStrategy::offset(0), count: 10, auto_commit: true }.to_bytes(),
            false,
            "poll_messages",
        ),
        20 => {
            let messages = vec![Message::new(Some(4242), Bytes::from_static(b"intruder"), None)];
            (SEND_MESSAGES_CODE, iggy::messages::send_messages::SendMessages { stream_id: s1.clone(), topic_id: t1.clone(), partitioning: Partitioning::partition_id(1), messages }.to_bytes(), true, "send_messages")
        }
        21 => (FLUSH_UNSAVED_BUFFER_CODE, iggy::messages::flush_unsaved_buffer::FlushUnsavedBuffer { stream_id: s1.clone(), topic_id: t1.clone(), partition_id: 1, fsync: false }.to_bytes(), true, "flush_unsaved_buffer"),
        22 => (GET_CONSUMER_OFFSET_CODE, iggy::consumer_offsets::get_consumer_offset::GetConsumerOffset { consumer: Consumer::default(), stream_id: s1.clone(), topic_id: t1.clone(), partition_id: Some(1) }.to_bytes(), false, "get_consumer_offset"),
        23 => (STORE_CONSUMER_OFFSET_CODE, iggy::consumer_offsets::store_consumer_offset::StoreConsumerOffset { consumer: Consumer::default(), stream_id: s1.clone(), topic_id: t1.clone(), partition_id: Some(1), offset: 0 }.to_bytes(), true, "store_consumer_offset"),
        24 => (GET_CONSUMER_GROUPS_CODE, iggy::consumer_groups::get_consumer_groups::GetConsumerGroups { stream_id: s1.clone(), topic_id: t1.clone() }.to_bytes(), false, "get_consumer_groups"),
        25 => (CREATE_CONSUMER_GROUP_CODE, iggy::consumer_groups::create_consumer_group::CreateConsumerGroup { stream_id: s1.clone(), topic_id: t1.clone(), group_id: Some(66), name: "intruder-group".into() }.to_bytes(), true, "create_consumer_group"),
        26 => (GET_PERSONAL_ACCESS_TOKENS_CODE, Bytes::new(), false, "get_personal_access_tokens"),
        27 => (CREATE_PERSONAL_ACCESS_TOKEN_CODE, iggy::personal_access_tokens::create_personal_access_token::CreatePersonalAccessToken { name: "intruder-tok".into(), expiry: IggyExpiry::NeverExpire }.to_bytes(), true, "create_personal_access_token"),
        28 => (LOGOUT_USER_CODE, Bytes::new(), false, "logout_user"),
        _ => (UPDATE_PERMISSIONS_CODE, iggy::users::update_permissions::UpdatePermissions { user_id: IdRef::Num(2).to_identifier(), permissions: Some(iggy::models::permissions::Permissions::root()) }.to_bytes(), true, "update_permissions"),
    }
}

/// C09 (1): everything but ping/login is refused on a connection that has not authenticated.
pub async fn unauth_probe(h: &mut Harness, which: u32) {
    if !h.world.is_up() {
        return;
    }
    let Ok(mut conn) = RawConn::open(&h.sim) else { return };
    // ping is allowed
    match conn.request(PING_CODE, &[]).await {
        Ok((0, _)) => {}
        other => h.violate("C09", "ping_always_allowed", "ping_refused", format!("ping on a fresh connection answered {other:?}")),
    }
    let (code, payload, mutating, name) = request(which);
    match conn.request(code, &payload).await {
        Ok((status, body)) => {
            h.stats.probe("unauthenticated_request_sent");
            if status == 0 && (mutating || !body.is_empty()) {
                h.violate("C09", "unauthenticated_refused", format!("served:{name}"), format!("{name} on a connection that never authenticated was answered OK with {} bytes", body.len()));
            } else {
                h.stats.probe("unauthenticated_request_refused");
            }
        }
        Err(_) => h.stats.probe("unauthenticated_request_closed"),
    }
    drop(conn);
    h.sim.settle().await;
    h.check_panics("C09");
    if h.opts.http_arm && h.http0.is_some() {
        http_token_probe(h, which).await;
    }
}

/// The same over HTTP (runs with the HTTP arm): a request is served only with a token the server issued and
/// has not revoked. The SDK's `HttpClient` refuses to send without a token, so "unauthenticated" is a token
/// the server never issued, a tampered one, or one that was revoked by a logout.
async fn http_token_probe(h: &mut Harness, which: u32) {
    use iggy::client::{StreamClient, UserClient};
    use iggy::http::HttpTransport;
    let Ok(http) = iggy::http::client::HttpClient::create(std::sync::Arc::new(iggy::http::config::HttpClientConfig { api_url: "http://sim".into(), retries: 0 })) else { return };
    let (root_name, root_password) = h.model.users.get(&1).map(|u| (u.name.clone(), u.password.clone())).unwrap_or((crate::world::ROOT_USER.into(), crate::world::ROOT_PASSWORD.into()));
    if which % 5 == 4 {
        // a valid token is exchanged once: the exchange returns, the new token works, the old one does not
        let Ok(identity) = http.login_user(&root_name, &root_password).await else { return };
        let Some(old) = identity.access_token.map(|t| t.token) else { return };
        h.stats.probe("http_valid_token_refresh_requested");
        match http.refresh_access_token().await {
            Ok(()) => {
                if http.get_streams().await.is_err() {
                    h.violate("C10", "valid_credentials_accepted", "http_refreshed_token_refused", "the token obtained from /users/refresh-token is refused");
                    h.violate("C13", "exchange_equals_model", "http_refreshed_token_refused", "the token obtained from /users/refresh-token is refused");
                }
                http.set_access_token(Some(old.clone())).await;
                if http.get_streams().await.is_ok() {
                    h.violate("C10", "only_valid_credentials", "http_token_exchanged_by_refresh_accepted", "a token that was exchanged at /users/refresh-token is still served");
                }
                if h.revoked_http_tokens.len() < 16 {
                    // exchanged tokens are revoked for good as well
                    let _ = http_token_of(&http).await;
                    h.revoked_http_tokens.push(old);
                }
            }
            Err(e) => {
                h.violate("C10", "valid_credentials_accepted", "http_refresh_refused", format!("refresh of a valid token failed: {e:?}"));
                h.violate("C13", "exchange_equals_model", "http_refresh_refused", format!("refresh of a valid token failed: {e:?}"));
            }
        }
        h.sim.settle().await;
        return;
    }
    let kind = which % 4;
    let (token, what): (String, &'static str) = match kind {
        0 => (format!("eyJhbGciOiJIUzI1NiJ9.{:x}.{:x}", which as u64 * 7919, which as u64 * 104729), "token_never_issued"),
        3 if !h.revoked_http_tokens.is_empty() => {
            // a token revoked earlier in the run - possibly before a restart, possibly not the last one revoked
            let pick = (which as usize / 4) % h.revoked_http_tokens.len();
            (h.revoked_http_tokens[pick].clone(), "token_revoked_earlier")
        }
        _ => {
            // a real token of root ...
            let Ok(identity) = http.login_user(&root_name, &root_password).await else { return };
            let Some(info) = identity.access_token else { return };
            let token = info.token;
            if kind == 1 || kind == 3 {
                // ... revoked by logging out
                if http.logout_user().await.is_err() {
                    return;
                }
                if h.revoked_http_tokens.len() < 16 {
                    h.revoked_http_tokens.push(token.clone());
                }
                (token, "token_revoked_by_logout")
            } else {
                // ... with its signature altered
                let mut bytes = token.into_bytes();
                if let Some(last) = bytes.last_mut() {
                    *last = if *last == b'A' { b'B' } else { b'A' };
                }
                (String::from_utf8(bytes).unwrap_or_default(), "token_tampered")
            }
        }
    };
    http.set_access_token(Some(token)).await;
    h.stats.probe("http_request_with_invalid_token_sent");
    // the refresh endpoint is public: a token that is not valid any more must not be exchangeable for a new one
    if http.refresh_access_token().await.is_ok() {
        h.violate("C09", "unauthenticated_refused", format!("http_refreshed:{what}"), format!("POST /users/refresh-token exchanged a {what} for a new token"));
        h.violate("C10", "only_valid_credentials", format!("http_{what}_refreshed"), format!("POST /users/refresh-token exchanged a {what} for a new token"));
        return;
    }
    let read = http.get_streams().await;
    if read.is_ok() {
        h.violate("C09", "unauthenticated_refused", format!("http_served:get_streams:{what}"), format!("GET /streams with a {what} was served"));
        h.violate("C10", "only_valid_credentials", format!("http_{what}_accepted"), format!("GET /streams with a {what} was served"));
    }
    let name = format!("http-probe-{which}");
    let write = http.create_stream(&name, None).await;
    if write.is_ok() {
        h.violate("C09", "unauthenticated_refused", format!("http_served:create_stream:{what}"), format!("POST /streams with a {what} was served"));
        h.violate("C10", "only_valid_credentials", format!("http_{what}_accepted"), format!("POST /streams with a {what} was served"));
        // keep the model in step: remove it again through the administrator
        if let Some(admin) = h.clients[0].as_ref() {
            let _ = admin.delete_stream(&iggy::identifier::Identifier::named(&name).unwrap()).await;
        }
    }
    if read.is_err() && write.is_err() {
        h.stats.probe("http_request_with_invalid_token_refused");
    }
    h.sim.settle().await;
    h.check_panics("C09");
}

/// C13: frames that are not valid requests. The answer is an error or a closed connection; the effect on
/// the catalogue, the logs and other connections is judged by the audits and operations that follow.
pub async fn garbage(h: &mut Harness, seed: u64) {
    if !h.world.is_up() {
        return;
    }
    let mut rng = crate::rng::Rng::new(seed);
    let Ok(mut conn) = RawConn::open(&h.sim) else { return };
    let authenticated = rng.chance(0.5);
    if authenticated {
        let (name, password) = h.model.users.get(&1).map(|u| (u.name.clone(), u.password.clone())).unwrap();
        let login = iggy::users::login_user::LoginUser { username: name, password, version: None, context: None }.to_bytes();
        let _ = conn.request(LOGIN_USER_CODE, &login).await;
    }
    let frames = 1 + rng.below(4);
    for _ in 0..frames {
        let kind = rng.below(8);
        // On an authenticated connection a mutated frame of a mutating command may well be a *valid* request
        // (which the model would not know about), so there only look-ups are mutated; every command's
        // decoder is still reached on the unauthenticated connections (decoding precedes the session check).
        let all_codes = [PING_CODE, GET_STATS_CODE, GET_USER_CODE, CREATE_USER_CODE, UPDATE_PERMISSIONS_CODE, LOGIN_USER_CODE, POLL_MESSAGES_CODE, SEND_MESSAGES_CODE, GET_STREAM_CODE, CREATE_STREAM_CODE, CREATE_TOPIC_CODE, UPDATE_TOPIC_CODE, STORE_CONSUMER_OFFSET_CODE, CREATE_CONSUMER_GROUP_CODE, CREATE_PERSONAL_ACCESS_TOKEN_CODE, DELETE_PARTITIONS_CODE];
        let read_codes = [PING_CODE, GET_STATS_CODE, GET_USER_CODE, GET_USERS_CODE, GET_STREAM_CODE, GET_STREAMS_CODE, GET_TOPIC_CODE, GET_TOPICS_CODE, GET_CONSUMER_OFFSET_CODE, GET_CONSUMER_GROUP_CODE, GET_CONSUMER_GROUPS_CODE, GET_ME_CODE, GET_CLIENT_CODE, GET_CLIENTS_CODE, GET_PERSONAL_ACCESS_TOKENS_CODE];
        let known_codes: &[u32] = if authenticated { &read_codes } else { &all_codes };
        let pick_request = |rng: &mut crate::rng::Rng| loop {
            let r = request(rng.below(30) as u32);
            if !authenticated || (!r.2 && r.0 != POLL_MESSAGES_CODE && r.0 != LOGOUT_USER_CODE) {
                return r;
            }
        };
        let result = match kind {
            0 => {
                // unknown code, random payload
                let len = rng.usize_below(64);
                let payload = rng.bytes(len);
                conn.request(1000 + rng.below(100000) as u32, &payload).await.map(|r| Some(r))
            }
            1 | 2 => {
                // known code, random payload of random length (well-framed)
                let len = rng.usize_below(if kind == 1 { 40 } else { 400 });
                let payload = rng.bytes(len);
                conn.request(*rng.pick(known_codes), &payload).await.map(|r| Some(r))
            }
            3 => {
                // a valid request cut short (well-framed)
                let (code, payload, _, _) = pick_request(&mut rng);
                let cut = if payload.is_empty() { 0 } else { rng.usize_below(payload.len()) };
                conn.request(code, &payload[..cut]).await.map(|r| Some(r))
            }
            4 => {
                // a valid request with trailing garbage or flipped bytes (well-framed)
                let (code, payload, _, _) = pick_request(&mut rng);
                let mut p = payload.to_vec();
                if !p.is_empty() && rng.chance(0.7) {
                    let i = rng.usize_below(p.len());
                    p[i] ^= 1 << rng.below(8);
                } else {
                    let n = 1 + rng.usize_below(8);
                    p.extend(rng.bytes(n));
                }
                conn.request(code, &p).await.map(|r| Some(r))
            }
            5 => {
                // length field smaller than the command code (0..3)
                let mut frame = (rng.below(4) as u32).to_le_bytes().to_vec();
                let n = rng.usize_below(4);
                frame.extend(rng.bytes(n));
                let _ = conn.write_raw(&frame).await;
                conn.read_response().await.map(|r| Some(r))
            }
            6 => {
                // announced length larger than what follows, then the connection is closed mid-frame
                let announced = 8 + rng.below(60_000) as u32;
                let mut frame = announced.to_le_bytes().to_vec();
                let n = rng.usize_below(announced as usize - 1);
                frame.extend(rng.bytes(n));
                let _ = conn.write_raw(&frame).await;
                h.stats.probe("connection_closed_mid_frame");
                Ok(None)
            }
            _ => {
                // a frame fragment only (1-3 bytes of the length prefix), then close
                let n = 1 + rng.usize_below(3);
                let _ = conn.write_raw(&rng.bytes(n)).await;
                h.stats.probe("connection_closed_mid_length");
                Ok(None)
            }
        };
        h.stats.probe("malformed_frame_sent");
        match result {
            Ok(Some((0, _))) => h.stats.probe("malformed_frame_answered_ok"),
            Ok(Some(_)) => h.stats.probe("malformed_frame_answered_error"),
            Ok(None) => break,
            Err(_) => {
                h.stats.probe("malformed_frame_connection_closed");
                break;
            }
        }
    }
    drop(conn);
    h.sim.settle().await;
    // a panic while decoding kills the connection's task only (observably a closed connection)
    for p in h.sim.take_panics() {
        let _ = p;
        h.stats.probe("malformed_frame_panicked_its_handler");
    }
}

async fn http_token_of(_http: &iggy::http::client::HttpClient) -> Option<String> {
    // the client's current token is private; the caller already holds the old one
    None
}
