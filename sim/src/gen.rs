//! Swarm-style generation: per run a configuration, an operation mix and sizes are drawn; operations are
//! then generated one by one against the current model state and recorded.

use crate::model::Model;
use crate::ops::*;
use crate::rng::Rng;
use crate::rt::{SchedPolicy, SimConfig};
use crate::world::{Job, Knobs, StopKind};
use serde::{Deserialize, Serialize};

/// Weights of the operation kinds (0 = never). Drawn per run, then perturbed (swarm).
#[derive(Clone, Debug, Serialize, Deserialize, Default)]
pub struct Mix {
    pub send: u32,
    pub poll: u32,
    pub flush: u32,
    pub job_save: u32,
    pub job_maintain: u32,
    pub restart_clean: u32,
    pub restart_flush_kill: u32,
    pub restart_lose_index: u32,
    pub purge: u32,
    pub tick: u32,
    pub jump: u32,
    pub back_jump: u32,
    pub store_offset: u32,
    pub get_offset: u32,
    pub delete_offset: u32,
    pub audit: u32,
    pub get_topic: u32,
    pub partitions: u32,
    pub update_topic: u32,
    pub catalogue: u32,
    pub groups: u32,
    pub users: u32,
    pub connect: u32,
    #[serde(default)]
    pub job_heartbeat: u32,
    #[serde(default)]
    pub job_clean_tokens: u32,
    #[serde(default)]
    pub unauth: u32,
    #[serde(default)]
    pub garbage: u32,
    #[serde(default)]
    pub key_mismatch: u32,
}

#[derive(Clone, Debug, Serialize, Deserialize)]
pub struct GenCfg {
    pub mix: Mix,
    pub ops: u32,
    pub clients: usize,
    pub topics: u32,
    pub partitions: u32,
    pub topic_expiry: Vec<Expiry>,
    pub topic_max_size: Vec<MaxSize>,
    pub batch_sizes: Vec<u32>,
    pub payload_lens: Vec<u32>,
    pub header_chance: f64,
    pub zero_id_chance: f64,
    pub repeat_id_chance: f64,
    pub part_id_weight: u32,
    pub part_balanced_weight: u32,
    pub part_key_weight: u32,
    pub invalid_partition_chance: f64,
    pub jump_micros: Vec<u64>,
    pub named_ids_chance: f64,
    pub invalid_chance: f64,
    /// generate the structural corners of permission records (empty tables) and 1-2 character names
    #[serde(default)]
    pub codec_corners: bool,
    /// share of permission updates that are a *demotion* of the user's current record (one grant taken
    /// away, the rest kept) followed at once by requests on that user's open connections
    #[serde(default)]
    pub revocation_chance: f64,
    /// share of purges that are a send followed at once by the purge (see `Op::SendThenPurge`)
    #[serde(default)]
    pub send_then_purge_chance: f64,
    /// share of clean restarts that directly follow a send (see `Op::SendThenRestart`)
    #[serde(default)]
    pub send_then_restart_chance: f64,
    /// share of token creations that start the "name of an expired token re-used" history
    #[serde(default)]
    pub pat_reuse_chance: f64,
}

impl Default for GenCfg {
    fn default() -> GenCfg {
        GenCfg {
            mix: Mix::default(),
            ops: 60,
            clients: 1,
            topics: 1,
            partitions: 2,
            topic_expiry: vec![Expiry::Never],
            topic_max_size: vec![MaxSize::Unlimited],
            batch_sizes: vec![1, 1, 2, 3, 5, 8, 10, 20, 40],
            payload_lens: vec![1, 5, 10, 20, 50, 100, 200],
            header_chance: 0.2,
            zero_id_chance: 0.05,
            repeat_id_chance: 0.0,
            part_id_weight: 8,
            part_balanced_weight: 1,
            part_key_weight: 1,
            invalid_partition_chance: 0.0,
            jump_micros: vec![1_000_000],
            named_ids_chance: 0.2,
            invalid_chance: 0.0,
            codec_corners: false,
            revocation_chance: 0.0,
            send_then_purge_chance: 0.0,
            send_then_restart_chance: 0.0,
            pat_reuse_chance: 0.0,
        }
    }
}

/// Everything that defines one run; with `ops` filled in it is a replay file.
#[derive(Clone, Debug, Serialize, Deserialize)]
pub struct Case {
    pub prop: String,
    pub seed: u64,
    pub knobs: Knobs,
    pub policy: String,
    pub yield_prob: f64,
    pub pipe_capacity: usize,
    pub auto_tick: u64,
    pub settle_each: bool,
    pub gen: GenCfg,
    pub setup: Vec<Op>,
    /// recorded operations (empty = generate from the seed)
    pub ops: Vec<Op>,
    /// schedule decisions are always re-derived from the seed; see DESIGN 2.11
    #[serde(default)]
    pub note: String,
    /// serve the HTTP API too and route a seeded share of the administrator's catalogue commands through
    /// the real SDK `HttpClient` and the real axum router (hook H8)
    #[serde(default)]
    pub http_arm: bool,
    /// file writes complete later, scheduled by seed (see `SimConfig::defer_writes`)
    #[serde(default)]
    pub defer_writes: bool,
    /// rate of injected errors / torn writes on segment log and index files while a send, flush or
    /// background save is in progress (0 = none)
    #[serde(default)]
    pub disk_fault_rate: f64,
    /// rate of injected errors / torn writes on the state journal while catalogue commands run (0 = none)
    #[serde(default)]
    pub journal_fault_rate: f64,
}

impl Case {
    pub fn sim_config(&self) -> SimConfig {
        let mut cfg = SimConfig::new(self.seed);
        cfg.policy = match self.policy.as_str() {
            "fifo" => SchedPolicy::Fifo,
            "pct" => SchedPolicy::Pct { depth: 3 },
            "starve_bg" => SchedPolicy::StarveBackground,
            "eager_bg" => SchedPolicy::EagerBackground,
            _ => SchedPolicy::Random,
        };
        cfg.yield_prob = self.yield_prob;
        cfg.pipe_capacity = self.pipe_capacity;
        cfg.auto_tick_micros = self.auto_tick;
        cfg.defer_writes = self.defer_writes;
        cfg
    }
}

pub fn draw_sim_part(rng: &mut Rng, case: &mut Case) {
    case.policy = rng.pick(&["random", "random", "fifo", "pct", "starve_bg", "eager_bg"]).to_string();
    case.yield_prob = *rng.pick(&[0.0, 0.05, 0.2, 0.5, 1.0]);
    case.pipe_capacity = *rng.pick(&[16, 64, 1024, 4096, 65536]);
    case.auto_tick = *rng.pick(&[0, 1, 1, 3]);
}

pub struct Gen {
    pub rng: Rng,
    pub cfg: GenCfg,
    pub next_id: u128,
    pub used_ids: Vec<u128>,
    pub salt: u32,
    pub keys: Vec<Vec<u8>>,
    pub name_counter: u32,
    /// operations that must follow the one just generated (directed arms)
    pub pending: std::collections::VecDeque<Op>,
    /// set while `permission_probe` draws operations: directed arms must not nest
    pub in_probe: bool,
}

impl Gen {
    pub fn new(seed: u64, cfg: GenCfg) -> Gen {
        let mut rng = Rng::substream(seed, "workload");
        let keys = (0..6)
            .map(|i| {
                let len = match i {
                    0 => 1,
                    1 => 255,
                    _ => 1 + rng.usize_below(40),
                };
                rng.bytes(len)
            })
            .collect();
        Gen { rng, cfg, next_id: 1000, used_ids: Vec::new(), salt: 0, keys, name_counter: 0, pending: Default::default(), in_probe: false }
    }

    pub fn fresh_name(&mut self, prefix: &str) -> String {
        self.name_counter += 1;
        if self.cfg.codec_corners && !prefix.starts_with("user") && !prefix.starts_with("tok") {
            // boundary lengths: 1, 2 and 255 bytes, and multi-byte characters
            match self.rng.below(10) {
                0 => return format!("{}", (b'a' + (self.name_counter % 26) as u8) as char),
                1 => return format!("{}{}", (b'a' + (self.name_counter % 26) as u8) as char, self.name_counter % 10),
                2 => {
                    let base = format!("{prefix}{}-", self.name_counter);
                    return format!("{base}{}", "x".repeat(255 - base.len()));
                }
                3 => return format!("{prefix}é{}", self.name_counter),
                _ => {}
            }
        }
        format!("{prefix}{}", self.name_counter)
    }

    fn msg(&mut self) -> MsgSpec {
        self.salt += 1;
        let id = if self.rng.chance(self.cfg.zero_id_chance) {
            0
        } else if !self.used_ids.is_empty() && self.rng.chance(self.cfg.repeat_id_chance) {
            *self.rng.pick(&self.used_ids)
        } else {
            self.next_id += 1;
            self.next_id
        };
        if id != 0 && self.used_ids.len() < 200 {
            self.used_ids.push(id);
        }
        let len = *self.rng.pick(&self.cfg.payload_lens);
        let headers = if self.rng.chance(self.cfg.header_chance) { 1 + self.rng.below(3) as u8 } else { 0 };
        MsgSpec { id, salt: self.salt, len, headers }
    }

    fn pick_topic(&mut self, model: &Model) -> Option<(u32, u32, String, String)> {
        let all: Vec<(u32, u32, String, String)> = model
            .streams
            .values()
            .flat_map(|s| s.topics.values().map(move |t| (s.id, t.id, s.name.clone(), t.name.clone())))
            .collect();
        if all.is_empty() {
            None
        } else {
            Some(self.rng.pick(&all).clone())
        }
    }

    fn refs(&mut self, t: &(u32, u32, String, String)) -> (IdRef, IdRef) {
        let s = if self.rng.chance(self.cfg.named_ids_chance) { IdRef::Name(t.2.clone()) } else { IdRef::Num(t.0) };
        let tt = if self.rng.chance(self.cfg.named_ids_chance) { IdRef::Name(t.3.clone()) } else { IdRef::Num(t.1) };
        (s, tt)
    }

    fn who(&mut self) -> Who {
        match self.rng.below(10) {
            0 => Who::Consumer(IdRef::Name("consumer-a".into())),
            1 => Who::Consumer(IdRef::Num(7)),
            _ => Who::Consumer(IdRef::Num(1 + self.rng.below(3) as u32)),
        }
    }

    /// Connection 0 is the administrator's (always root): audits and snapshots go through it, so
    /// session-changing operations are moved to another connection.
    pub fn next(&mut self, model: &Model) -> Op {
        if let Some(op) = self.pending.pop_front() {
            return op;
        }
        let mut op = self.next_raw(model);
        let clients = self.cfg.clients;
        let other = if clients > 1 { Some(1 + self.rng.usize_below(clients - 1)) } else { None };
        match &mut op {
            Op::Login { c, .. } | Op::Logout { c } | Op::LoginPat { c, .. } | Op::Disconnect { c } | Op::Connect { c } if *c == 0 => match other {
                Some(o) => *c = o,
                None => return Op::Ping { c: 0 },
            },
            _ => {}
        }
        op
    }

    /// A request that needs a permission (data path, catalogue, query), issued by connection `c`.
    /// A request on stream `focus` (the stream whose record was just changed), of the kinds the per-stream and
    /// per-topic flags govern.
    pub fn targeted_permission_probe(&mut self, model: &Model, c: usize, focus: u32) -> Option<Op> {
        let stream = model.streams.get(&focus)?;
        let topic = if stream.topics.is_empty() { None } else { Some(*self.rng.pick(&stream.topics.keys().copied().collect::<Vec<_>>())) };
        let s = IdRef::Num(focus);
        Some(match (self.rng.below(9), topic) {
            (0 | 1, Some(t)) => Op::Send { c, stream: s, topic: IdRef::Num(t), part: Part::Id(1), msgs: vec![self.msg()] },
            (2, Some(t)) => Op::Flush { c, stream: s, topic: IdRef::Num(t), partition: 1, fsync: false },
            (3, Some(t)) => Op::Poll { c, stream: s, topic: IdRef::Num(t), partition: Some(1), who: self.who(), kind: PollKind::Offset(0), count: 5, auto_commit: false },
            (4, Some(t)) => Op::GetTopic { c, stream: s, topic: IdRef::Num(t) },
            (5, Some(t)) => Op::CreatePartitions { c, stream: s, topic: IdRef::Num(t), count: 1 },
            (6, Some(t)) => Op::StoreOffset { c, stream: s, topic: IdRef::Num(t), partition: Some(1), who: self.who(), offset: 0 },
            (7, _) => Op::GetTopics { c, stream: s },
            _ => Op::GetStream { c, stream: s },
        })
    }

    pub fn permission_probe(&mut self, model: &Model, c: usize) -> Option<Op> {
        for _ in 0..12 {
            self.in_probe = true;
            let op = self.next_raw(model);
            self.in_probe = false;
            let wanted = matches!(
                op,
                Op::Send { .. } | Op::Poll { .. } | Op::Flush { .. } | Op::StoreOffset { .. } | Op::GetOffset { .. } | Op::GetTopic { .. } | Op::GetTopics { .. } | Op::GetStream { .. } | Op::GetStreams { .. }
                    | Op::CreateTopic { .. } | Op::UpdateTopic { .. } | Op::CreatePartitions { .. } | Op::PurgeTopic { .. } | Op::CreateGroup { .. } | Op::GetGroups { .. } | Op::GetUsers { .. } | Op::GetClients { .. } | Op::GetStats { .. }
            );
            if !wanted {
                continue;
            }
            let mut v = serde_json::to_value(&op).ok()?;
            let inner = v.as_object_mut()?.values_mut().next()?;
            inner.as_object_mut()?.insert("c".into(), serde_json::json!(c));
            return serde_json::from_value(v).ok();
        }
        None
    }

    fn next_raw(&mut self, model: &Model) -> Op {
        let m = self.cfg.mix.clone();
        let weights = [
            m.send, m.poll, m.flush, m.job_save, m.job_maintain, m.restart_clean, m.restart_flush_kill, m.restart_lose_index, m.purge, m.tick, m.jump, m.back_jump, m.store_offset, m.get_offset,
            m.delete_offset, m.audit, m.get_topic, m.partitions, m.update_topic, m.catalogue, m.groups, m.users, m.connect, m.job_heartbeat, m.job_clean_tokens, m.unauth, m.garbage, m.key_mismatch,
        ];
        let choice = self.rng.pick_weighted(&weights);
        let c = self.rng.usize_below(self.cfg.clients);
        let topic = self.pick_topic(model);
        match (choice, topic) {
            (0, Some(t)) => {
                let (s, tt) = self.refs(&t);
                let tm = &model.streams[&t.0].topics[&t.1];
                let n = tm.partitions.len() as u32;
                let pw = [self.cfg.part_id_weight, self.cfg.part_balanced_weight, self.cfg.part_key_weight];
                let part = match self.rng.pick_weighted(&pw) {
                    0 => {
                        if self.rng.chance(self.cfg.invalid_partition_chance) || n == 0 {
                            Part::Id(*self.rng.pick(&[0, n + 1, n + 7, u32::MAX]))
                        } else {
                            Part::Id(1 + self.rng.below(n as u64) as u32)
                        }
                    }
                    1 => Part::Balanced,
                    _ => Part::Key(self.rng.pick(&self.keys.clone()).clone()),
                };
                let k = *self.rng.pick(&self.cfg.batch_sizes.clone());
                let mut msgs: Vec<MsgSpec> = (0..k).map(|_| self.msg()).collect();
                if self.cfg.repeat_id_chance > 0.0 && msgs.len() > 1 && self.rng.chance(0.3) {
                    // a repeat inside the batch
                    let i = self.rng.usize_below(msgs.len() - 1);
                    if msgs[i].id != 0 {
                        let last = msgs.len() - 1;
                        msgs[last].id = msgs[i].id;
                    }
                }
                Op::Send { c, stream: s, topic: tt, part, msgs }
            }
            (1, Some(t)) => {
                let (s, tt) = self.refs(&t);
                let tm = &model.streams[&t.0].topics[&t.1];
                let n = tm.partitions.len() as u32;
                let p = if n == 0 { 1 } else { 1 + self.rng.below(n as u64) as u32 };
                let (current, first, sample_ts) = match tm.partitions.get(&p) {
                    Some(pm) => {
                        let known: Vec<u64> = pm.msgs.iter().filter_map(|m| m.ts).collect();
                        (pm.current_offset(), pm.first_retained, if known.is_empty() { None } else { Some(*self.rng.pick(&known)) })
                    }
                    None => (0, 0, None),
                };
                let kind = match self.rng.below(12) {
                    0 => PollKind::First,
                    1 => PollKind::Last,
                    2 | 3 => PollKind::Next,
                    4 => match sample_ts {
                        Some(ts) => PollKind::Timestamp((ts as i64 + self.rng.range(0, 2) as i64 - 1) as u64),
                        None => PollKind::Timestamp(0),
                    },
                    5 => PollKind::Offset(first.saturating_sub(self.rng.below(3))),
                    6 => PollKind::Offset(current + self.rng.below(3)),
                    _ => PollKind::Offset(self.rng.below(current + 2)),
                };
                let count = *self.rng.pick(&[1, 1, 2, 3, 5, 10, 25, 100, 1000]);
                let auto_commit = self.rng.chance(0.25);
                let partition = if p == 1 && self.rng.chance(0.2) { None } else { Some(p) };
                Op::Poll { c, stream: s, topic: tt, partition, who: self.who(), kind, count, auto_commit }
            }
            (2, Some(t)) => {
                let (s, tt) = self.refs(&t);
                let n = model.streams[&t.0].topics[&t.1].partitions.len() as u32;
                Op::Flush { c, stream: s, topic: tt, partition: 1 + self.rng.below(n.max(1) as u64) as u32, fsync: self.rng.chance(0.5) }
            }
            (3, _) => Op::RunJob(Job::Save),
            (4, _) => {
                if self.cfg.send_then_restart_chance > 0.0 && self.rng.chance(0.3) {
                    // act at once: a restart meets exactly what the retention pass left (a partition emptied by
                    // it consists of one empty segment that does not start at 0)
                    self.pending.push_back(Op::Restart(StopKind::GracefulDrained));
                }
                Op::RunJob(Job::Maintain)
            }
            (5, Some(t)) if self.rng.chance(self.cfg.send_then_restart_chance) && !model.streams[&t.0].topics[&t.1].partitions.is_empty() => {
                let (s, tt) = self.refs(&t);
                let n = model.streams[&t.0].topics[&t.1].partitions.len() as u32;
                let k = *self.rng.pick(&[1u32, 2, 3, 5, 10, 20]);
                let msgs: Vec<MsgSpec> = (0..k).map(|_| self.msg()).collect();
                let kind = if self.rng.chance(0.5) { StopKind::GracefulImmediate } else { StopKind::GracefulDrained };
                Op::SendThenRestart { stream: s, topic: tt, partition: 1 + self.rng.below(n as u64) as u32, msgs, kind }
            }
            (5, _) => Op::Restart(if self.rng.chance(0.5) { StopKind::GracefulImmediate } else { StopKind::GracefulDrained }),
            (6, _) => Op::Restart(StopKind::Kill),
            (7, _) => Op::RestartLosingIndexes(StopKind::GracefulDrained),
            (8, Some(t)) => {
                let (s, tt) = self.refs(&t);
                let n = model.streams[&t.0].topics[&t.1].partitions.len() as u32;
                if n > 0 && self.rng.chance(self.cfg.send_then_purge_chance) {
                    let k = *self.rng.pick(&[1u32, 3, 5, 10, 20]);
                    let msgs: Vec<MsgSpec> = (0..k).map(|_| self.msg()).collect();
                    return Op::SendThenPurge { stream: s, topic: tt, partition: 1 + self.rng.below(n as u64) as u32, msgs };
                }
                if self.rng.chance(0.3) {
                    Op::PurgeStream { c, stream: s }
                } else {
                    Op::PurgeTopic { c, stream: s, topic: tt }
                }
            }
            (9, _) => Op::Tick(1 + self.rng.below(2000)),
            (10, _) => {
                let base = *self.rng.pick(&self.cfg.jump_micros.clone());
                Op::Jump(base / 2 + self.rng.below(base + 1))
            }
            (11, _) => Op::BackJump(1 + self.rng.below(5_000_000)),
            (12, Some(t)) | (13, Some(t)) | (14, Some(t)) => {
                // a group member whose current partition is known: the request without a partition id
                let known: Vec<((u32, u32, u32, u32), u32)> = model.member_current.iter().map(|(k, v)| (*k, *v)).collect();
                if !known.is_empty() && self.rng.chance(0.5) {
                    let ((sid, tid, gid, client_id), p) = *self.rng.pick(&known);
                    if let Some(mc) = model.sessions.iter().position(|x| x.connected && x.client_id == Some(client_id)) {
                        let current = model.streams.get(&sid).and_then(|x| x.topics.get(&tid)).and_then(|x| x.partitions.get(&p)).map(|pm| pm.current_offset()).unwrap_or(0);
                        let (stream, topic, who) = (IdRef::Num(sid), IdRef::Num(tid), Who::Group(IdRef::Num(gid)));
                        return match choice {
                            12 => Op::StoreOffset { c: mc, stream, topic, partition: None, who, offset: self.rng.below(current + 1) },
                            13 => Op::GetOffset { c: mc, stream, topic, partition: None, who },
                            _ => Op::DeleteOffset { c: mc, stream, topic, partition: None, who },
                        };
                    }
                }
                let (s, tt) = self.refs(&t);
                let tm = &model.streams[&t.0].topics[&t.1];
                let n = tm.partitions.len() as u32;
                let p = 1 + self.rng.below(n.max(1) as u64) as u32;
                let current = tm.partitions.get(&p).map(|pm| pm.current_offset()).unwrap_or(0);
                // identities chosen so that a consumer and a group share a numeric id
                let groups: Vec<u32> = tm.groups.keys().copied().collect();
                let who = if !groups.is_empty() && self.rng.chance(0.4) {
                    Who::Group(IdRef::Num(*self.rng.pick(&groups)))
                } else if !groups.is_empty() && self.rng.chance(0.5) {
                    Who::Consumer(IdRef::Num(*self.rng.pick(&groups)))
                } else {
                    self.who()
                };
                let partition = if matches!(who, Who::Consumer(_)) && p == 1 && self.rng.chance(0.2) { None } else { Some(p) };
                match choice {
                    12 => {
                        let offset = if self.rng.chance(0.15) { current + 1 + self.rng.below(5) } else { self.rng.below(current + 1) };
                        Op::StoreOffset { c, stream: s, topic: tt, partition, who, offset }
                    }
                    13 => Op::GetOffset { c, stream: s, topic: tt, partition, who },
                    _ => Op::DeleteOffset { c, stream: s, topic: tt, partition, who },
                }
            }
            (15, _) => Op::Audit,
            (16, Some(t)) => {
                let (s, tt) = self.refs(&t);
                match self.rng.below(4) {
                    0 => Op::GetStream { c, stream: s },
                    1 => Op::GetStreams { c },
                    2 => Op::GetTopics { c, stream: s },
                    _ => Op::GetTopic { c, stream: s, topic: tt },
                }
            }
            (17, Some(t)) => {
                let (s, tt) = self.refs(&t);
                let n = model.streams[&t.0].topics[&t.1].partitions.len() as u32;
                if n >= 6 || (n > 1 && self.rng.chance(0.5)) {
                    Op::DeletePartitions { c, stream: s, topic: tt, count: 1 + self.rng.below(2) as u32 }
                } else {
                    Op::CreatePartitions { c, stream: s, topic: tt, count: 1 + self.rng.below(2) as u32 }
                }
            }
            (18, Some(t)) => {
                let (s, tt) = self.refs(&t);
                let tm = &model.streams[&t.0].topics[&t.1];
                let name = if self.rng.chance(0.7) { tm.name.clone() } else { self.fresh_name("renamed-topic-") };
                let expiry = self.rng.pick(&self.cfg.topic_expiry.clone()).clone();
                let max_size = self.rng.pick(&self.cfg.topic_max_size.clone()).clone();
                Op::UpdateTopic { c, stream: s, topic: tt, name, expiry, max_size, replication: Some(tm.replication), compression: tm.compression }
            }
            (19, _) => crate::gen_cat::catalogue_op(self, model, c),
            (20, _) => crate::gen_cat::group_op(self, model, c),
            (21, _) => crate::gen_cat::user_op(self, model, c),
            (22, _) => {
                if model.sessions[c].connected {
                    Op::Disconnect { c }
                } else {
                    Op::Connect { c }
                }
            }
            (23, _) => Op::RunJob(Job::VerifyHeartbeats),
            (24, _) => Op::RunJob(Job::CleanTokens),
            (25, _) => Op::UnauthProbe { which: self.rng.below(30) as u32 },
            (26, _) => Op::Garbage { seed: self.rng.next_u64() },
            (27, _) => Op::RestartKeyMismatch { off: self.rng.chance(0.3) },
            _ => Op::Tick(1 + self.rng.below(100)),
        }
    }
}
