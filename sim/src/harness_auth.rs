//! Users, permissions, credentials and sessions (C09, C10): the reference of the documented
//! permission hierarchy and the credential validity model.

use crate::harness::*;
use crate::model::*;
use crate::ops::*;
use iggy::client::*;
use iggy::error::IggyError;
use iggy::models::permissions::{GlobalPermissions, Permissions, StreamPermissions, TopicPermissions};
use iggy::models::user_status::UserStatus;
use iggy::utils::duration::IggyDuration;
use iggy::utils::expiry::IggyExpiry;
use std::collections::BTreeMap;

// ------------------------------------------------------------------------------------------------
// the documented hierarchy (sdk/src/models/permissions.rs doc comments)
// ------------------------------------------------------------------------------------------------

#[derive(Clone, Copy, Debug, PartialEq, Eq)]
pub enum Need {
    Authenticated,
    ReadServers,
    ReadUsers,
    ManageUsers,
    CreateStream,
    ManageStream(u32),
    ReadStream(u32),
    ReadStreams,
    ManageTopics(u32),
    ManageTopic(u32, u32),
    ReadTopic(u32, u32),
    ReadTopics(u32),
    Poll(u32, u32),
    Send(u32, u32),
}

#[derive(Clone, Copy, Debug, PartialEq, Eq)]
pub enum Verdict {
    Allow,
    Deny,
    Either,
}

pub fn to_sdk_permissions(p: &PermSpec) -> Permissions {
    let g = p.global;
    Permissions {
        global: GlobalPermissions {
            manage_servers: g[0],
            read_servers: g[1],
            manage_users: g[2],
            read_users: g[3],
            manage_streams: g[4],
            read_streams: g[5],
            manage_topics: g[6],
            read_topics: g[7],
            poll_messages: g[8],
            send_messages: g[9],
        },
        streams: p.streams.as_ref().map(|streams| {
            streams
                .iter()
                .map(|(sid, f, topics)| {
                    (
                        *sid,
                        StreamPermissions {
                            manage_stream: f[0],
                            read_stream: f[1],
                            manage_topics: f[2],
                            read_topics: f[3],
                            poll_messages: f[4],
                            send_messages: f[5],
                            topics: topics.as_ref().map(|t| t.iter().map(|(tid, tf)| (*tid, TopicPermissions { manage_topic: tf[0], read_topic: tf[1], poll_messages: tf[2], send_messages: tf[3] })).collect()),
                        },
                    )
                })
                .collect()
        }),
    }
}

struct Closure {
    g_read_servers: bool,
    g_read_users: bool,
    g_manage_users: bool,
    g_manage_streams: bool,
    g_read_streams: bool,
    g_manage_topics: bool,
    g_read_topics: bool,
    g_poll: bool,
    g_send: bool,
    g_any_manage: bool,
}

fn global_closure(g: &[bool; 10]) -> Closure {
    let manage_servers = g[0];
    let manage_users = g[2];
    let manage_streams = g[4];
    let read_streams = g[5] || manage_streams;
    let manage_topics = g[6] || manage_streams;
    let read_topics = g[7] || read_streams || manage_topics;
    Closure {
        g_read_servers: g[1] || manage_servers,
        g_read_users: g[3] || manage_users,
        g_manage_users: manage_users,
        g_manage_streams: manage_streams,
        g_read_streams: read_streams,
        g_manage_topics: manage_topics,
        g_read_topics: read_topics,
        g_poll: g[8] || read_topics,
        g_send: g[9],
        g_any_manage: manage_streams || manage_topics,
    }
}

struct StreamClosure {
    manage_stream: bool,
    read_stream: bool,
    manage_topics: bool,
    read_topics: bool,
    poll: bool,
    send: bool,
}

fn stream_closure(f: &[bool; 6]) -> StreamClosure {
    let manage_stream = f[0];
    let read_stream = f[1] || manage_stream;
    let manage_topics = f[2] || manage_stream;
    let read_topics = f[3] || read_stream || manage_topics;
    StreamClosure { manage_stream, read_stream, manage_topics, read_topics, poll: f[4] || read_topics || read_stream, send: f[5] }
}

/// `strict = true`: only what the documentation states unambiguously; `false`: the most permissive reading.
fn grants(p: &PermSpec, need: Need, strict: bool) -> bool {
    let g = global_closure(&p.global);
    let stream = |sid: u32| p.streams.as_ref().and_then(|s| s.iter().find(|x| x.0 == sid));
    let topic = |sid: u32, tid: u32| stream(sid).and_then(|s| s.2.as_ref()).and_then(|t| t.iter().find(|x| x.0 == tid)).map(|x| x.1);
    match need {
        Need::Authenticated => true,
        Need::ReadServers => g.g_read_servers,
        Need::ReadUsers => g.g_read_users,
        Need::ManageUsers => g.g_manage_users,
        Need::CreateStream => g.g_manage_streams,
        Need::ManageStream(s) => g.g_manage_streams || stream(s).map(|x| stream_closure(&x.1).manage_stream).unwrap_or(false),
        Need::ReadStream(s) => g.g_read_streams || stream(s).map(|x| stream_closure(&x.1).read_stream).unwrap_or(false),
        Need::ReadStreams => {
            g.g_read_streams || (!strict && p.streams.as_ref().map(|s| s.iter().any(|x| stream_closure(&x.1).read_stream)).unwrap_or(false))
        }
        Need::ManageTopics(s) => g.g_manage_topics || stream(s).map(|x| stream_closure(&x.1).manage_topics).unwrap_or(false),
        Need::ManageTopic(s, t) => g.g_manage_topics || stream(s).map(|x| stream_closure(&x.1).manage_topics).unwrap_or(false) || topic(s, t).map(|f| f[0]).unwrap_or(false),
        Need::ReadTopic(s, t) => g.g_read_topics || stream(s).map(|x| stream_closure(&x.1).read_topics).unwrap_or(false) || topic(s, t).map(|f| f[0] || f[1]).unwrap_or(false),
        Need::ReadTopics(s) => {
            g.g_read_topics
                || stream(s).map(|x| stream_closure(&x.1).read_topics).unwrap_or(false)
                || (!strict && stream(s).and_then(|x| x.2.as_ref()).map(|t| t.iter().any(|f| f.1[0] || f.1[1])).unwrap_or(false))
        }
        Need::Poll(s, t) => g.g_poll || stream(s).map(|x| stream_closure(&x.1).poll).unwrap_or(false) || topic(s, t).map(|f| f[0] || f[1] || f[2]).unwrap_or(false),
        Need::Send(s, t) => {
            g.g_send
                || stream(s).map(|x| stream_closure(&x.1).send).unwrap_or(false)
                || topic(s, t).map(|f| f[3]).unwrap_or(false)
                || (!strict && (g.g_any_manage || stream(s).map(|x| { let c = stream_closure(&x.1); c.manage_stream || c.manage_topics }).unwrap_or(false) || topic(s, t).map(|f| f[0]).unwrap_or(false)))
        }
    }
}

pub fn verdict_for(perms: &Option<PermSpec>, need: Need) -> Verdict {
    match perms {
        None => {
            if need == Need::Authenticated {
                Verdict::Allow
            } else {
                Verdict::Deny
            }
        }
        Some(p) => {
            if grants(p, need, true) {
                Verdict::Allow
            } else if !grants(p, need, false) {
                Verdict::Deny
            } else {
                Verdict::Either
            }
        }
    }
}

/// What the operation needs, if its target exists in the model (otherwise no permission judgement).
pub fn need_of(model: &Model, op: &Op, session_user: u32) -> Option<Need> {
    let st = |s: &IdRef| model.stream_id(s);
    let tp = |s: &IdRef, t: &IdRef| model.topic_ids(s, t);
    Some(match op {
        Op::CreateStream { .. } => Need::CreateStream,
        Op::UpdateStream { stream, .. } | Op::DeleteStream { stream, .. } | Op::PurgeStream { stream, .. } => Need::ManageStream(st(stream)?),
        Op::GetStream { stream, .. } => Need::ReadStream(st(stream)?),
        Op::GetStreams { .. } => Need::ReadStreams,
        Op::CreateTopic { stream, .. } => Need::ManageTopics(st(stream)?),
        Op::UpdateTopic { stream, topic, .. } | Op::DeleteTopic { stream, topic, .. } | Op::PurgeTopic { stream, topic, .. } | Op::CreatePartitions { stream, topic, .. } | Op::DeletePartitions { stream, topic, .. } => {
            let (s, t) = tp(stream, topic)?;
            Need::ManageTopic(s, t)
        }
        Op::GetTopic { stream, topic, .. } | Op::GetGroups { stream, topic, .. } | Op::GetGroup { stream, topic, .. } | Op::CreateGroup { stream, topic, .. } | Op::DeleteGroup { stream, topic, .. } | Op::JoinGroup { stream, topic, .. } | Op::LeaveGroup { stream, topic, .. } => {
            let (s, t) = tp(stream, topic)?;
            Need::ReadTopic(s, t)
        }
        Op::GetTopics { stream, .. } => Need::ReadTopics(st(stream)?),
        Op::Poll { stream, topic, .. } | Op::StoreOffset { stream, topic, .. } | Op::GetOffset { stream, topic, .. } | Op::DeleteOffset { stream, topic, .. } => {
            let (s, t) = tp(stream, topic)?;
            Need::Poll(s, t)
        }
        Op::Send { stream, topic, .. } | Op::Flush { stream, topic, .. } => {
            let (s, t) = tp(stream, topic)?;
            Need::Send(s, t)
        }
        Op::GetStats { .. } | Op::GetClients { .. } => Need::ReadServers,
        Op::GetUsers { .. } => Need::ReadUsers,
        Op::GetUser { user, .. } => {
            if model.user_id(user) == Some(session_user) {
                Need::Authenticated
            } else {
                Need::ReadUsers
            }
        }
        Op::CreateUser { .. } | Op::DeleteUser { .. } | Op::UpdateUser { .. } | Op::UpdatePermissions { .. } => Need::ManageUsers,
        Op::ChangePassword { user, .. } => {
            if model.user_id(user) == Some(session_user) {
                Need::Authenticated
            } else {
                Need::ManageUsers
            }
        }
        Op::GetMe { .. } | Op::GetPats { .. } | Op::CreatePat { .. } | Op::DeletePat { .. } | Op::Logout { .. } => Need::Authenticated,
        _ => return None,
    })
}

// ------------------------------------------------------------------------------------------------
// rule-level probes on the real Permissioner: evaluation never panics; more permissions never deny
// ------------------------------------------------------------------------------------------------

type Rule = (&'static str, Box<dyn Fn(&server::streaming::users::permissioner::Permissioner, u32) -> Result<(), IggyError>>);

fn rules(stream: u32, topic: u32) -> Vec<Rule> {
    vec![
        ("get_stream", Box::new(move |p, u| p.get_stream(u, stream))),
        ("get_streams", Box::new(move |p, u| p.get_streams(u))),
        ("create_stream", Box::new(move |p, u| p.create_stream(u))),
        ("update_stream", Box::new(move |p, u| p.update_stream(u, stream))),
        ("delete_stream", Box::new(move |p, u| p.delete_stream(u, stream))),
        ("purge_stream", Box::new(move |p, u| p.purge_stream(u, stream))),
        ("get_topic", Box::new(move |p, u| p.get_topic(u, stream, topic))),
        ("get_topics", Box::new(move |p, u| p.get_topics(u, stream))),
        ("create_topic", Box::new(move |p, u| p.create_topic(u, stream))),
        ("update_topic", Box::new(move |p, u| p.update_topic(u, stream, topic))),
        ("delete_topic", Box::new(move |p, u| p.delete_topic(u, stream, topic))),
        ("purge_topic", Box::new(move |p, u| p.purge_topic(u, stream, topic))),
        ("create_partitions", Box::new(move |p, u| p.create_partitions(u, stream, topic))),
        ("delete_partitions", Box::new(move |p, u| p.delete_partitions(u, stream, topic))),
        ("poll_messages", Box::new(move |p, u| p.poll_messages(u, stream, topic))),
        ("append_messages", Box::new(move |p, u| p.append_messages(u, stream, topic))),
        ("create_consumer_group", Box::new(move |p, u| p.create_consumer_group(u, stream, topic))),
        ("delete_consumer_group", Box::new(move |p, u| p.delete_consumer_group(u, stream, topic))),
        ("get_consumer_group", Box::new(move |p, u| p.get_consumer_group(u, stream, topic))),
        ("get_consumer_groups", Box::new(move |p, u| p.get_consumer_groups(u, stream, topic))),
        ("join_consumer_group", Box::new(move |p, u| p.join_consumer_group(u, stream, topic))),
        ("leave_consumer_group", Box::new(move |p, u| p.leave_consumer_group(u, stream, topic))),
        ("get_consumer_offset", Box::new(move |p, u| p.get_consumer_offset(u, stream, topic))),
        ("store_consumer_offset", Box::new(move |p, u| p.store_consumer_offset(u, stream, topic))),
        ("delete_consumer_offset", Box::new(move |p, u| p.delete_consumer_offset(u, stream, topic))),
        ("get_stats", Box::new(move |p, u| p.get_stats(u))),
        ("get_clients", Box::new(move |p, u| p.get_clients(u))),
        ("get_client", Box::new(move |p, u| p.get_client(u))),
        ("get_user", Box::new(move |p, u| p.get_user(u))),
        ("get_users", Box::new(move |p, u| p.get_users(u))),
        ("create_user", Box::new(move |p, u| p.create_user(u))),
        ("delete_user", Box::new(move |p, u| p.delete_user(u))),
        ("update_user", Box::new(move |p, u| p.update_user(u))),
        ("update_permissions", Box::new(move |p, u| p.update_permissions(u))),
        ("change_password", Box::new(move |p, u| p.change_password(u))),
    ]
}

/// A superset of `a`: some more flags switched on, some more records added (seeded).
fn superset(a: &PermSpec, rng: &mut crate::rng::Rng, streams: &[u32], topics: &[u32]) -> PermSpec {
    let mut b = a.clone();
    for f in b.global.iter_mut() {
        if !*f && rng.chance(0.2) {
            *f = true;
        }
    }
    let mut records = b.streams.clone().unwrap_or_default();
    for r in records.iter_mut() {
        for f in r.1.iter_mut() {
            if !*f && rng.chance(0.2) {
                *f = true;
            }
        }
        if rng.chance(0.3) {
            let mut table = r.2.clone().unwrap_or_default();
            for t in table.iter_mut() {
                for f in t.1.iter_mut() {
                    if !*f && rng.chance(0.3) {
                        *f = true;
                    }
                }
            }
            if let Some(t) = topics.first() {
                if !table.iter().any(|x| x.0 == *t) && rng.chance(0.5) {
                    table.push((*t, [rng.chance(0.3), rng.chance(0.3), rng.chance(0.3), rng.chance(0.3)]));
                }
            }
            if !table.is_empty() || r.2.is_some() {
                r.2 = Some(table);
            }
        }
    }
    for s in streams {
        if !records.iter().any(|x| x.0 == *s) && rng.chance(0.4) {
            // a granular record (possibly all false, possibly without a topic table) is still "more"
            records.push((*s, [rng.chance(0.2), rng.chance(0.2), rng.chance(0.2), rng.chance(0.2), rng.chance(0.2), rng.chance(0.2)], if rng.chance(0.5) { None } else { Some(vec![]) }));
        }
    }
    if !records.is_empty() || b.streams.is_some() {
        b.streams = Some(records);
    }
    b
}

/// Evaluates every rule of the real `Permissioner` for record A and a superset B.
pub fn probe_rules(h: &mut Harness, a: &Option<PermSpec>) {
    use server::streaming::users::permissioner::Permissioner;
    if !h.on("C09") {
        return;
    }
    let Some(a) = a else { return };
    let streams: Vec<u32> = h.model.streams.keys().copied().collect();
    let topics: Vec<u32> = h.model.streams.values().flat_map(|s| s.topics.keys().copied()).collect();
    let mut rng = crate::rng::Rng::new(h.sim.steps() ^ 0x9e37);
    let b = superset(a, &mut rng, &streams, &topics);
    let mut pa = Permissioner::default();
    pa.init_permissions_for_user(100, Some(to_sdk_permissions(a)));
    let mut pb = Permissioner::default();
    pb.init_permissions_for_user(100, Some(to_sdk_permissions(&b)));
    let mut targets: Vec<(u32, u32)> = Vec::new();
    for s in streams.iter().chain([77u32].iter()) {
        for t in topics.iter().take(2).chain([55u32].iter()) {
            targets.push((*s, *t));
        }
    }
    for (stream, topic) in targets.into_iter().take(6) {
        for (name, rule) in rules(stream, topic) {
            let ra = std::panic::catch_unwind(std::panic::AssertUnwindSafe(|| rule(&pa, 100)));
            let rb = std::panic::catch_unwind(std::panic::AssertUnwindSafe(|| rule(&pb, 100)));
            h.stats.probe("permission_rule_evaluated");
            let canon = |p: &PermSpec| crate::snapshot::canon_permissions(&Some(to_sdk_permissions(p)));
            match (&ra, &rb) {
                (Err(_), _) => h.violate("C09", "evaluation_never_panics", format!("rule_panics:{name}"), format!("rule {name}({stream},{topic}) panics for record {}", canon(a))),
                (_, Err(_)) => h.violate("C09", "evaluation_never_panics", format!("rule_panics:{name}"), format!("rule {name}({stream},{topic}) panics for record {}", canon(&b))),
                (Ok(Ok(())), Ok(Err(_))) => h.violate("C09", "more_permissions_never_deny", format!("non_monotone:{name}"), format!("rule {name}({stream},{topic}) allows record {} but denies its superset {}", canon(a), canon(&b))),
                _ => {}
            }
        }
    }
    // the panic hook recorded the caught panics: they are accounted for above
    let _ = h.sim.take_panics();
}

// ------------------------------------------------------------------------------------------------
// operations
// ------------------------------------------------------------------------------------------------

fn authed(h: &Harness, c: usize) -> bool {
    h.model.sessions.get(c).map(|s| s.connected && s.user != 0).unwrap_or(false) && h.clients.get(c).map(|x| x.is_some()).unwrap_or(false)
}

pub async fn step_auth(h: &mut Harness, op: &Op) {
    match op {
        Op::CreateUser { c, name, password, active, perms } => create_user(h, *c, name, password, *active, perms).await,
        Op::DeleteUser { c, user } => delete_user(h, *c, user).await,
        Op::UpdateUser { c, user, name, active } => update_user(h, *c, user, name, *active).await,
        Op::UpdatePermissions { c, user, perms } => update_permissions(h, *c, user, perms).await,
        Op::ChangePassword { c, user, current, new } => change_password(h, *c, user, current, new).await,
        Op::Login { c, name, password } => login(h, *c, name, password).await,
        Op::Logout { c } => logout(h, *c).await,
        Op::CreatePat { c, name, expiry_micros } => create_pat(h, *c, name, *expiry_micros).await,
        Op::DeletePat { c, name } => delete_pat(h, *c, name).await,
        Op::LoginPat { c, token_ref } => login_pat(h, *c, *token_ref).await,
        Op::GetUsers { c } => {
            if authed(h, *c) {
                let result = crate::routed!(h, *c, get_users());
                if h.perm_gate("get_users", result.is_ok(), result.as_ref().err()) {
                    match result {
                        Ok(list) => {
                            let mut got: Vec<(u32, String, bool)> = list.iter().map(|u| (u.id, u.username.clone(), u.status == UserStatus::Active)).collect();
                            got.sort();
                            let want: Vec<(u32, String, bool)> = h.model.users.values().map(|u| (u.id, u.name.clone(), u.active)).collect();
                            if got != want {
                                h.violate("C06", "get_equals_model", "users_listing", format!("get_users: {got:?} vs model {want:?}"));
                            }
                        }
                        Err(e) => h.violate("C06", "get_equals_model", "users_error", format!("get_users failed: {e:?}")),
                    }
                }
            }
        }
        Op::GetUser { c, user } => {
            if authed(h, *c) {
                let result = crate::routed!(h, *c, get_user(&user.to_identifier()));
                if h.perm_gate_found("get_user", matches!(result, Ok(Some(_))), result.is_ok(), result.as_ref().err()) {
                    let uid = h.model.user_id(user);
                    match (result, uid) {
                        (Ok(Some(d)), Some(uid)) => {
                            let u = h.model.users[&uid].clone();
                            let perms = crate::snapshot::canon_permissions(&d.permissions);
                            let want = crate::snapshot::canon_permissions(&u.perms.as_ref().map(to_sdk_permissions));
                            let root_ok = uid == 1;
                            if d.id != u.id || d.username != u.name || (d.status == UserStatus::Active) != u.active || (!root_ok && perms != want) {
                                h.violate("C06", "get_equals_model", "user", format!("get_user {uid}: {}:{}:{} perms {perms} vs model {}:{}:{} perms {want}", d.id, d.username, d.status, u.id, u.name, u.active));
                            }
                        }
                        (Ok(Some(d)), None) => h.violate("C06", "get_equals_model", "phantom_user", format!("get_user {user:?} returned {}:{}", d.id, d.username)),
                        (Ok(None), Some(uid)) => h.violate("C06", "get_equals_model", "user_missing", format!("get_user {uid} found nothing")),
                        (Err(e), Some(uid)) => h.violate("C06", "get_equals_model", "user_error", format!("get_user {uid} failed: {e:?}")),
                        _ => {}
                    }
                }
            }
        }
        Op::GetPats { c } => {
            if authed(h, *c) {
                let result = h.clients[*c].as_ref().unwrap().get_personal_access_tokens().await;
                if h.perm_gate("get_pats", result.is_ok(), result.as_ref().err()) {
                    let uid = h.model.sessions[*c].user;
                    if let (Ok(list), Some(u)) = (result, h.model.users.get(&uid)) {
                        let mut got: Vec<String> = list.iter().map(|p| p.name.clone()).collect();
                        got.sort();
                        let want: Vec<String> = u.pats.keys().cloned().collect();
                        // a token past its expiry is listed until the cleaner or a restart drops it: optional
                        let now = h.sim.now_micros();
                        let must: Vec<&String> = u.pats.iter().filter(|(_, p)| p.expiry_at.map(|e| e > now + 1_000_000).unwrap_or(true)).map(|(k, _)| k).collect();
                        let tolerated = must.iter().all(|k| got.contains(k)) && got.iter().all(|k| want.contains(k));
                        if got != want && !tolerated {
                            h.violate("C06", "get_equals_model", "pats_listing", format!("tokens of user {uid}: {got:?} vs model {want:?}"));
                        }
                    }
                }
            }
        }
        Op::GetMe { c } => get_me(h, *c).await,
        Op::GetClients { c } => {
            if authed(h, *c) {
                let result = h.clients[*c].as_ref().unwrap().get_clients().await;
                if h.perm_gate("get_clients", result.is_ok(), result.as_ref().err()) {
                    // the listing of connections is not part of any listed property: only served/refused is judged
                    let _ = result;
                }
            }
        }
        Op::GetStats { c } => crate::harness_stats::get_stats(h, *c).await,
        _ => {}
    }
}

async fn get_me(h: &mut Harness, c: usize) {
    let Some(client) = h.clients.get(c).and_then(|x| x.as_ref()) else { return };
    if !h.model.sessions[c].connected {
        return;
    }
    let result = client.get_me().await;
    let user = h.model.sessions[c].user;
    match (&result, user) {
        (Ok(me), u) if u != 0 => {
            if me.user_id != Some(u) {
                h.violate("C10", "session_identity", "get_me_wrong_user", format!("connection {c} is logged in as {u}, get_me says {:?}", me.user_id));
            }
            h.model.sessions[c].client_id = Some(me.client_id);
        }
        (Ok(me), _) => h.violate("C10", "logged_out_is_unauthenticated", "get_me_after_logout", format!("connection {c} is not authenticated but get_me answered {:?}", me.user_id)),
        (Err(IggyError::Unauthorized), u) if u > 1 => {
            // the server asks for the permission to read servers; the documentation is silent about get_me
            let _ = u;
            h.stats.probe("get_me_refused_without_read_servers");
        }
        (Err(_), u) if u != 0 => {
            let detail = format!("get_me of authenticated connection {c} (user {u}) failed: {:?}", result.as_ref().err());
            h.violate("C06", "valid_command_fails", "get_me", detail)
        }
        _ => {}
    }
}

async fn create_user(h: &mut Harness, c: usize, name: &str, password: &str, active: bool, perms: &Option<PermSpec>) {
    if !authed(h, c) {
        return;
    }
    probe_rules(h, perms);
    let status = if active { UserStatus::Active } else { UserStatus::Inactive };
    let result = crate::routed!(h, c, create_user(name, password, status, perms.as_ref().map(to_sdk_permissions)));
    if !h.perm_gate("create_user", result.is_ok(), result.as_ref().err()) {
        return;
    }
    let taken = h.model.users.values().any(|u| u.name == name);
    let valid = (3..=50).contains(&name.len()) && (3..=100).contains(&password.len());
    let expect_ok = valid && !taken;
    if expect_ok && result.is_err() {
        h.violate("C06", "valid_command_fails", "create_user", format!("valid create_user {name} failed: {:?}", result.as_ref().err()));
    } else if !expect_ok && result.is_ok() {
        h.violate("C06", "invalid_command_refused", "create_user", format!("invalid create_user {name} accepted (taken={taken})"));
    }
    if let Ok(d) = result {
        *h.stats.ops_ok.entry("create_user").or_insert(0) += 1;
        if h.model.users.contains_key(&d.id) {
            h.violate("C06", "ids_unique", "user_id_reused", format!("new user {name} got id {} of a live user", d.id));
            return;
        }
        if h.ever_user_ids.contains(&d.id) {
            h.stats.probe("user_id_reissued");
        }
        h.ever_user_ids.insert(d.id);
        h.model.users.insert(d.id, MUser { id: d.id, name: name.into(), password: password.into(), active, perms: perms.clone(), pats: BTreeMap::new(), created_at: None });
        h.secrets.push(password.to_string());
    }
}

async fn delete_user(h: &mut Harness, c: usize, user: &IdRef) {
    if !authed(h, c) {
        return;
    }
    let result = crate::routed!(h, c, delete_user(&user.to_identifier()));
    let uid = h.model.user_id(user);
    if uid == Some(1) {
        if result.is_ok() {
            h.violate("C09", "root_is_protected", "root_deleted", "the root user was deleted");
        } else {
            h.stats.probe("root_delete_refused");
        }
        return;
    }
    if !h.perm_gate("delete_user", result.is_ok(), result.as_ref().err()) {
        return;
    }
    if uid.is_some() && result.is_err() {
        h.violate("C06", "valid_command_fails", "delete_user", format!("valid delete_user failed: {:?}", result.as_ref().err()));
    } else if uid.is_none() && result.is_ok() {
        h.violate("C06", "invalid_command_refused", "delete_user", "delete of an unknown user accepted");
    }
    if let (Ok(()), Some(uid)) = (result, uid) {
        h.model.users.remove(&uid);
        // connections of the deleted user are de-authenticated (and dropped by the server's client list)
        let mut gone: Vec<u32> = Vec::new();
        for s in h.model.sessions.iter_mut() {
            if s.user == uid {
                s.user = 0;
                s.deleted_user = Some(uid);
                gone.extend(s.client_id);
            }
        }
        // ... and leave their consumer groups at once, not only when the connection is found dead
        for id in gone {
            crate::harness_grp::forget_client(h, id);
        }
        *h.stats.ops_ok.entry("delete_user").or_insert(0) += 1;
    }
}

async fn update_user(h: &mut Harness, c: usize, user: &IdRef, name: &Option<String>, active: Option<bool>) {
    if !authed(h, c) {
        return;
    }
    let status = active.map(|a| if a { UserStatus::Active } else { UserStatus::Inactive });
    let result = crate::routed!(h, c, update_user(&user.to_identifier(), name.as_deref(), status));
    if !h.perm_gate("update_user", result.is_ok(), result.as_ref().err()) {
        return;
    }
    let uid = h.model.user_id(user);
    let taken = match (name, uid) {
        (Some(n), Some(uid)) => h.model.users.values().any(|u| &u.name == n && u.id != uid),
        _ => false,
    };
    let valid_name = name.as_ref().map(|n| (3..=50).contains(&n.len())).unwrap_or(true);
    let expect_ok = uid.is_some() && !taken && valid_name;
    if expect_ok && result.is_err() {
        h.violate("C06", "valid_command_fails", "update_user", format!("valid update_user failed: {:?}", result.as_ref().err()));
    } else if !expect_ok && result.is_ok() {
        h.violate("C06", "invalid_command_refused", "update_user", format!("invalid update_user accepted (taken={taken})"));
    }
    if let (Ok(()), Some(uid)) = (result, uid) {
        let u = h.model.users.get_mut(&uid).unwrap();
        if let Some(n) = name {
            u.name = n.clone();
        }
        if let Some(a) = active {
            u.active = a;
        }
        *h.stats.ops_ok.entry("update_user").or_insert(0) += 1;
    }
}

async fn update_permissions(h: &mut Harness, c: usize, user: &IdRef, perms: &Option<PermSpec>) {
    if !authed(h, c) {
        return;
    }
    probe_rules(h, perms);
    let result = crate::routed!(h, c, update_permissions(&user.to_identifier(), perms.as_ref().map(to_sdk_permissions)));
    let uid = h.model.user_id(user);
    if uid == Some(1) {
        if result.is_ok() {
            h.violate("C09", "root_is_protected", "root_permissions_changed", "the permissions of the root user were changed");
        } else {
            h.stats.probe("root_permission_change_refused");
        }
        return;
    }
    if !h.perm_gate("update_permissions", result.is_ok(), result.as_ref().err()) {
        return;
    }
    if uid.is_some() && result.is_err() {
        h.violate("C06", "valid_command_fails", "update_permissions", format!("valid update_permissions failed: {:?}", result.as_ref().err()));
    }
    if let (Ok(()), Some(uid)) = (result, uid) {
        h.model.users.get_mut(&uid).unwrap().perms = perms.clone();
        *h.stats.ops_ok.entry("update_permissions").or_insert(0) += 1;
    }
}

async fn change_password(h: &mut Harness, c: usize, user: &IdRef, current: &str, new: &str) {
    if !authed(h, c) {
        return;
    }
    let result = crate::routed!(h, c, change_password(&user.to_identifier(), current, new));
    if !h.perm_gate("change_password", result.is_ok(), result.as_ref().err()) {
        return;
    }
    let Some(uid) = h.model.user_id(user) else {
        if result.is_ok() {
            h.violate("C10", "password_change_needs_current", "unknown_user", "change_password of an unknown user accepted");
        }
        return;
    };
    let right = h.model.users[&uid].password == current;
    let valid_new = (3..=100).contains(&new.len());
    match (&result, right && valid_new) {
        (Ok(()), false) if !right => h.violate("C10", "password_change_needs_current", "wrong_current_accepted", format!("password of user {uid} changed with a wrong current password")),
        (Ok(()), _) => {
            h.model.users.get_mut(&uid).unwrap().password = new.to_string();
            h.secrets.push(new.to_string());
            *h.stats.ops_ok.entry("change_password").or_insert(0) += 1;
        }
        (Err(e), true) => h.violate("C10", "password_change_needs_current", "right_current_refused", format!("password change of user {uid} with the right current password failed: {e:?}")),
        _ => {}
    }
}

async fn login(h: &mut Harness, c: usize, name: &str, password: &str) {
    let Some(client) = h.clients.get(c).and_then(|x| x.as_ref()) else { return };
    if !h.model.sessions[c].connected {
        return;
    }
    let result = client.login_user(name, password).await;
    let user = h.model.users.values().find(|u| u.name == name).cloned();
    let valid = user.as_ref().map(|u| u.active && u.password == password).unwrap_or(false);
    match (&result, valid) {
        (Ok(identity), true) => {
            let u = user.unwrap();
            if identity.user_id != u.id {
                h.violate("C10", "login_identity", "wrong_user_id", format!("login as {name} returned user id {}, model says {}", identity.user_id, u.id));
            }
            h.model.sessions[c].user = u.id;
            h.model.sessions[c].deleted_user = None;
            *h.stats.ops_ok.entry("login").or_insert(0) += 1;
        }
        (Ok(identity), false) => {
            let why = match &user {
                None => "unknown_user",
                Some(u) if !u.active => "inactive_user",
                Some(u) if h.old_passwords.get(&u.id).map(|o| o.contains(&password.to_string())).unwrap_or(false) => "stale_password",
                Some(_) => "wrong_password",
            };
            h.violate("C10", "only_valid_credentials", why, format!("login as {name} with an invalid credential succeeded (user id {})", identity.user_id));
            h.model.sessions[c].user = identity.user_id;
        }
        (Err(_), true) if h.model.sessions[c].deleted_user.is_some() => {
            // the connection belonged to a user that has been deleted: the server has dropped it from
            // its client list; the statement does not promise that such a connection can be reused
            h.stats.probe("login_on_connection_of_deleted_user_refused");
        }
        (Err(e), true) => h.violate("C10", "valid_credentials_accepted", "login_refused", format!("login as {name} with the current password failed: {e:?}")),
        (Err(_), false) => {
            h.stats.probe("invalid_login_refused");
            // a failed login must not authenticate; an existing authentication may or may not survive
        }
    }
}

async fn logout(h: &mut Harness, c: usize) {
    let Some(client) = h.clients.get(c).and_then(|x| x.as_ref()) else { return };
    if !h.model.sessions[c].connected {
        return;
    }
    let was = h.model.sessions[c].user;
    let result = client.logout_user().await;
    if was != 0 && result.is_err() {
        h.violate("C06", "valid_command_fails", "logout", format!("logout of user {was} failed: {:?}", result.as_ref().err()));
    }
    if result.is_ok() {
        h.model.sessions[c].user = 0;
        *h.stats.ops_ok.entry("logout").or_insert(0) += 1;
    }
}

async fn create_pat(h: &mut Harness, c: usize, name: &str, expiry_micros: u64) {
    if !authed(h, c) {
        return;
    }
    let expiry = if expiry_micros == 0 { IggyExpiry::NeverExpire } else { IggyExpiry::ExpireDuration(IggyDuration::from(expiry_micros)) };
    let now_lo = h.sim.now_micros();
    let result = crate::routed!(h, c, create_personal_access_token(name, expiry));
    let now_hi = h.sim.now_micros();
    let uid = h.model.sessions[c].user;
    let Some(user) = h.model.users.get(&uid).cloned() else { return };
    let taken = user.pats.contains_key(name);
    let limit = h.world.knobs.borrow().max_tokens_per_user as usize;
    let valid = (3..=30).contains(&name.len());
    let expect_ok = valid && !taken && user.pats.len() < limit;
    // tokens past their expiry may or may not still be held (the cleaner or a restart drops them)
    let maybe_gone = |p: &MPat| p.expiry_at.map(|e| e <= now_hi + 1_000_000).unwrap_or(false);
    let live = user.pats.values().filter(|p| !maybe_gone(p)).count();
    let uncertain = valid && ((taken && maybe_gone(&user.pats[name])) || (user.pats.len() >= limit && live < limit));
    if uncertain {
        h.stats.probe("create_pat_outcome_depends_on_expired_token");
    } else if expect_ok && result.is_err() {
        h.violate("C06", "valid_command_fails", "create_pat", format!("valid create_personal_access_token failed: {:?}", result.as_ref().err()));
    } else if !expect_ok && result.is_ok() {
        h.violate("C06", "invalid_command_refused", "create_pat", format!("invalid create_personal_access_token {name} accepted (taken={taken})"));
    }
    if let Ok(raw) = result {
        let raw_ref = h.model.raw_tokens.len();
        h.model.raw_tokens.push(raw.token.clone());
        h.secrets.push(raw.token.clone());
        h.token_owner.insert(raw_ref, (uid, name.to_string()));
        let expiry_at = if expiry_micros == 0 { None } else { Some((now_lo + expiry_micros, now_hi + expiry_micros)) };
        h.token_expiry.insert(raw_ref, expiry_at);
        h.model.users.get_mut(&uid).unwrap().pats.insert(name.to_string(), MPat { name: name.to_string(), expiry_at: expiry_at.map(|e| e.1), raw_ref });
        *h.stats.ops_ok.entry("create_pat").or_insert(0) += 1;
    }
}

async fn delete_pat(h: &mut Harness, c: usize, name: &str) {
    if !authed(h, c) {
        return;
    }
    let result = crate::routed!(h, c, delete_personal_access_token(name));
    let uid = h.model.sessions[c].user;
    let Some(user) = h.model.users.get_mut(&uid) else { return };
    let had = user.pats.contains_key(name);
    let now = h.sim.now_micros();
    if had && result.is_err() && user.pats[name].expiry_at.map(|e| e <= now + 1_000_000).unwrap_or(false) {
        // past its expiry: the cleaner or a restart may already have dropped it
        user.pats.remove(name);
        return;
    }
    match (&result, had) {
        (Ok(()), true) => {
            user.pats.remove(name);
            *h.stats.ops_ok.entry("delete_pat").or_insert(0) += 1;
        }
        (Ok(()), false) => {}
        (Err(e), true) => {
            let detail = format!("delete of token {name} failed: {e:?}");
            h.violate("C06", "valid_command_fails", "delete_pat", detail)
        }
        _ => {}
    }
}

/// Is the token currently a valid credential? `None` = within the uncertainty window of its expiry.
fn token_valid(h: &Harness, token_ref: usize) -> Option<(bool, &'static str, u32)> {
    let (uid, name) = h.token_owner.get(&token_ref)?.clone();
    let Some(user) = h.model.users.get(&uid) else { return Some((false, "token_of_deleted_user", uid)) };
    let Some(pat) = user.pats.get(&name) else { return Some((false, "deleted_token", uid)) };
    if pat.raw_ref != token_ref {
        return Some((false, "deleted_token", uid));
    }
    if !user.active {
        return Some((false, "token_of_inactive_user", uid));
    }
    match h.token_expiry.get(&token_ref).copied().flatten() {
        None => Some((true, "valid", uid)),
        Some((lo, hi)) => {
            let now = h.sim.now_micros();
            if now < lo {
                Some((true, "valid", uid))
            } else if now > hi + 10 {
                Some((false, "expired_token", uid))
            } else {
                None
            }
        }
    }
}

async fn login_pat(h: &mut Harness, c: usize, token_ref: usize) {
    let Some(client) = h.clients.get(c).and_then(|x| x.as_ref()) else { return };
    if !h.model.sessions[c].connected {
        return;
    }
    // `usize::MAX` = the token issued last
    let token_ref = if token_ref == usize::MAX { h.model.raw_tokens.len().saturating_sub(1) } else { token_ref };
    let Some(token) = h.model.raw_tokens.get(token_ref).cloned() else { return };
    let result = client.login_with_personal_access_token(&token).await;
    let validity = token_valid(h, token_ref);
    match (&result, validity) {
        (Ok(identity), Some((true, _, uid))) => {
            if identity.user_id != uid {
                h.violate("C10", "login_identity", "token_wrong_user", format!("token of user {uid} logged in as {}", identity.user_id));
            }
            h.model.sessions[c].user = uid;
            *h.stats.ops_ok.entry("login_pat").or_insert(0) += 1;
        }
        (Ok(identity), Some((false, why, _))) => {
            h.violate("C10", "only_valid_credentials", why, format!("login with an invalid personal access token ({why}) succeeded as user {}", identity.user_id));
            h.model.sessions[c].user = identity.user_id;
        }
        (Err(_), Some((true, _, _))) if h.model.sessions[c].deleted_user.is_some() => {
            h.stats.probe("login_on_connection_of_deleted_user_refused");
        }
        (Err(e), Some((true, _, uid))) => h.violate("C10", "valid_credentials_accepted", "token_refused", format!("login with a valid token of user {uid} failed: {e:?}")),
        (Err(_), Some((false, why, _))) => {
            h.stats.probe("invalid_token_refused");
            if why == "expired_token" {
                h.stats.probe("expired_token_refused");
            }
        }
        (Ok(identity), None) => {
            h.model.sessions[c].user = identity.user_id;
        }
        (Err(_), None) => {}
    }
}

pub async fn after_heartbeat_verification(h: &mut Harness) {
    // connections whose last ping is older than 1.2 x interval are evicted
    let interval = (h.world.heartbeat_interval_micros.get() as f64 * 1.2) as u64;
    let now = h.sim.now_micros();
    let mut evicted = Vec::new();
    for c in 0..h.model.sessions.len() {
        if !h.model.sessions[c].connected {
            continue;
        }
        let last = h.last_ping.get(&c).copied().unwrap_or(0).max(h.connected_at.get(&c).copied().unwrap_or(0));
        // the server compares its own clock readings (a few auto-ticks away from the ones recorded here):
        // within 5 ms of the limit the outcome is not predicted
        const BAND: u64 = 5_000;
        if h.verbose {
            eprintln!("[heartbeat] c{c}: last {last} interval {interval} now {now}");
        }
        if last + interval + BAND < now {
            evicted.push(c);
        } else if last + interval < now + BAND {
            // either way the connection is closed from this side: evicted or not, it is gone afterwards and
            // the server has dropped its memberships
            h.stats.probe("heartbeat_eviction_at_the_limit_connection_closed");
            evicted.push(c);
        }
    }
    for c in evicted {
        h.stats.probe("client_evicted_by_heartbeat");
        if let Some(id) = h.model.sessions[c].client_id {
            crate::harness_grp::forget_client(h, id);
        }
        // a connection whose id was never learned has joined no group: nothing to forget
        // the server closes nothing, the session is stale: the model treats the connection as gone
        h.clients[c] = None;
        h.model.sessions[c] = MSession::default();
    }
    h.sim.settle().await;
    if h.clients[0].is_none() {
        let _ = h.connect_client(0, true).await;
    }
}

pub async fn after_token_cleaning(h: &mut Harness) {
    // expired tokens are removed from every user
    let now = h.sim.now_micros();
    let expiries = h.token_expiry.clone();
    for u in h.model.users.values_mut() {
        u.pats.retain(|_, p| match expiries.get(&p.raw_ref).copied().flatten() {
            Some((_, hi)) => hi + 10 >= now,
            None => true,
        });
    }
}

pub async fn audit_users(h: &mut Harness) {
    if !h.on("C05") && !h.on("C06") && !h.on("C10") && !h.on("C09") {
        return;
    }
    let Some(client) = h.clients[0].as_ref() else { return };
    if let Ok(list) = client.get_users().await {
        let mut got: Vec<(u32, String, bool)> = list.iter().map(|u| (u.id, u.username.clone(), u.status == UserStatus::Active)).collect();
        got.sort();
        let want: Vec<(u32, String, bool)> = h.model.users.values().map(|u| (u.id, u.name.clone(), u.active)).collect();
        if got != want {
            h.violate("C06", "get_equals_model", "users_listing", format!("audit get_users: {got:?} vs model {want:?}"));
        }
    }
}
