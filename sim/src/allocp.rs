//! Allocation-size probe: the process allocator notes the largest single request of 1 MiB or more, so that a
//! check can say "loading this 2 KiB file asked for 3 GiB". An allocation that fails aborts the process (it
//! does not unwind), so a request of that size *is* a crash wherever that much memory is not to be had.

use std::alloc::{GlobalAlloc, Layout, System};
use std::sync::atomic::{AtomicUsize, Ordering};

static LARGEST: AtomicUsize = AtomicUsize::new(0);

pub struct Probe;

#[inline]
fn note(size: usize) {
    if size >= 1 << 20 {
        LARGEST.fetch_max(size, Ordering::Relaxed);
    }
}

unsafe impl GlobalAlloc for Probe {
    unsafe fn alloc(&self, layout: Layout) -> *mut u8 {
        note(layout.size());
        System.alloc(layout)
    }
    unsafe fn dealloc(&self, ptr: *mut u8, layout: Layout) {
        System.dealloc(ptr, layout)
    }
    unsafe fn alloc_zeroed(&self, layout: Layout) -> *mut u8 {
        note(layout.size());
        System.alloc_zeroed(layout)
    }
    unsafe fn realloc(&self, ptr: *mut u8, layout: Layout, new_size: usize) -> *mut u8 {
        note(new_size);
        System.realloc(ptr, layout, new_size)
    }
}

pub fn reset() {
    LARGEST.store(0, Ordering::Relaxed);
}

/// Largest single request (>= 1 MiB) since the last reset, 0 if none.
pub fn largest() -> usize {
    LARGEST.load(Ordering::Relaxed)
}
