//! The simulator: a seeded single-threaded executor that owns every scheduling decision, the clock,
//! the file-system fault plan and mutation log, and the in-memory network.
//!
//! One run = one OS thread = one tokio `current_thread` runtime with a paused clock. The simulator is
//! the root future of `block_on`; every simulated task ("actor") is polled by hand with its own waker.

use crate::rng::Rng;
use iggy::verif::{FsEvent, FsFault, FsOp, SimRuntime, SimStream};
use std::cell::{Cell, RefCell};
use std::collections::BTreeMap;
use std::future::Future;
use std::io;
use std::net::SocketAddr;
use std::panic::{catch_unwind, AssertUnwindSafe};
use std::path::{Path, PathBuf};
use std::pin::Pin;
use std::rc::Rc;
use std::sync::atomic::{AtomicBool, Ordering};
use std::sync::{Arc, Mutex};
use std::task::{Context, Poll, Wake, Waker};
use std::time::Duration;

pub type LocalFuture = Pin<Box<dyn Future<Output = ()>>>;

#[derive(Clone, Debug, PartialEq)]
pub enum SchedPolicy {
    /// Uniformly random among runnable actors.
    Random,
    /// Lowest actor id first (a deterministic, mostly "inline" baseline).
    Fifo,
    /// PCT-style: random static priorities, lowered at `d` random change points.
    Pct { depth: u32 },
    /// Background actors are starved: the main actor runs whenever it can (probability `bias`).
    StarveBackground,
    /// Background actors run before the main actor whenever they can.
    EagerBackground,
}

#[derive(Clone, Debug)]
pub struct SimConfig {
    pub seed: u64,
    pub policy: SchedPolicy,
    pub yield_prob: f64,
    pub step_budget: u64,
    pub epoch_micros: u64,
    pub auto_tick_micros: u64,
    pub pipe_capacity: usize,
    /// writes to the server's data files are handed over and completed later by a task the scheduler owns
    /// (what tokio's `File` does); reads through other handles can run in between
    pub defer_writes: bool,
}

impl SimConfig {
    pub fn new(seed: u64) -> SimConfig {
        SimConfig {
            seed,
            policy: SchedPolicy::Random,
            yield_prob: 0.2,
            step_budget: 2_000_000,
            // 2026-01-01T00:00:00Z: issued JWTs stay valid against the real clock read by `jsonwebtoken`.
            epoch_micros: 1_767_225_600_000_000,
            auto_tick_micros: 1,
            pipe_capacity: 4096,
            defer_writes: false,
        }
    }
}

#[derive(Clone, Debug, PartialEq, Eq, Hash, PartialOrd, Ord, serde::Serialize, serde::Deserialize)]
pub enum PathClass {
    Log,
    Index,
    ConsumerOffset,
    StateLog,
    Other,
}

pub fn classify(path: &Path) -> PathClass {
    let s = path.to_string_lossy();
    if s.ends_with(".log") {
        PathClass::Log
    } else if s.ends_with(".index") {
        PathClass::Index
    } else if s.contains("/offsets/") {
        PathClass::ConsumerOffset
    } else if s.ends_with("state/log") || s.ends_with("/log") {
        PathClass::StateLog
    } else {
        PathClass::Other
    }
}

/// One planned fault: the `nth` (0-based) occurrence of `op` on a path of `class` gets `fault`.
#[derive(Clone, Debug)]
pub struct PlannedFault {
    pub class: PathClass,
    pub op: FsOp,
    pub nth: u64,
    pub fault: FsFault,
}

#[derive(Default)]
pub struct FsState {
    pub log: Vec<FsEvent>,
    pub record: bool,
    pub armed: bool,
    pub plan: Vec<PlannedFault>,
    pub occurrences: BTreeMap<(PathClass, u8), u64>,
    pub fired: Vec<(PathClass, FsOp, u64, FsFault)>,
    /// per-class probability of a random fault while armed (drawn from the fault PRNG stream)
    pub random_rate: f64,
    pub random_classes: Vec<PathClass>,
    pub op_counts: BTreeMap<&'static str, u64>,
    /// lower bound on accepted bytes per write (buggify): `None` = tokio's 2 MiB
    pub max_write: Option<usize>,
    /// after a random fault: this many operations of the faulted classes are left alone, so that the
    /// code's own repair of the failed operation is not hit by a second, independent fault
    pub cooldown: u32,
}

fn op_code(op: FsOp) -> u8 {
    match op {
        FsOp::Open => 0,
        FsOp::Write => 1,
        FsOp::Read => 2,
        FsOp::Sync => 3,
        FsOp::Metadata => 4,
        FsOp::SetLen => 5,
        FsOp::Remove => 6,
        FsOp::RemoveDir => 7,
        FsOp::CreateDir => 8,
        FsOp::Rename => 9,
        FsOp::ReadDir => 10,
    }
}

struct WakeFlag {
    ready: AtomicBool,
    root: Arc<Mutex<Option<Waker>>>,
}

impl Wake for WakeFlag {
    fn wake(self: Arc<Self>) {
        self.wake_by_ref();
    }

    fn wake_by_ref(self: &Arc<Self>) {
        self.ready.store(true, Ordering::SeqCst);
        if let Some(waker) = self.root.lock().unwrap().as_ref() {
            waker.wake_by_ref();
        }
    }
}

struct Actor {
    id: u64,
    name: &'static str,
    group: u32,
    future: Option<LocalFuture>,
    flag: Arc<WakeFlag>,
    priority: u64,
}

#[derive(Debug, Clone, PartialEq)]
pub enum SimStop {
    Budget,
    Escaped(String),
    /// the main actor (the scenario itself, which runs the client side of every exchange) panicked
    MainPanicked(String),
}

pub type Listener = Rc<dyn Fn(SimStream, SocketAddr)>;
pub type HttpAnswer = Pin<Box<dyn Future<Output = Result<reqwest::Response, String>>>>;
pub type HttpHandler = Rc<dyn Fn(reqwest::Request) -> HttpAnswer>;

pub struct SimInner {
    pub cfg: SimConfig,
    actors: RefCell<Vec<Actor>>,
    spawned: RefCell<Vec<Actor>>,
    next_actor_id: Cell<u64>,
    current_group: Cell<u32>,
    current_actor: Cell<u64>,
    root_waker: Arc<Mutex<Option<Waker>>>,
    sched_rng: RefCell<Rng>,
    fault_rng: RefCell<Rng>,
    pct_change_points: RefCell<Vec<u64>>,
    steps: Cell<u64>,
    trace_hash: Cell<u64>,
    settling: Cell<bool>,
    settle_done: Cell<bool>,
    dead: Cell<bool>,
    start: Cell<Option<tokio::time::Instant>>,
    skew_micros: Cell<i64>,
    ticks: Cell<u64>,
    pub fs: RefCell<FsState>,
    listener: RefCell<Option<Listener>>,
    http_handler: RefCell<Option<HttpHandler>>,
    pub deferred_writes: Cell<u64>,
    next_port: Cell<u16>,
    pub panics: RefCell<Vec<String>>,
    pub connections: Cell<u64>,
    pub yields: Cell<u64>,
    pub max_runnable: Cell<usize>,
    pub multi_choice_steps: Cell<u64>,
    stop: RefCell<Option<SimStop>>,
    pub actor_steps: RefCell<BTreeMap<(&'static str, u64), u64>>,
    /// simulated microseconds elapsed when the run ended (read inside the runtime: outside of it
    /// `tokio::time::Instant::now()` is the real clock)
    pub final_sim_micros: Cell<u64>,
}

#[derive(Clone)]
pub struct Sim {
    pub inner: Rc<SimInner>,
}

thread_local! {
    static LAST_PANIC: RefCell<Option<String>> = const { RefCell::new(None) };
    static THREAD_STARTED: Cell<bool> = const { Cell::new(false) };
}

static EXTRA_THREAD: AtomicBool = AtomicBool::new(false);

pub fn install_panic_hook() {
    let verbose = std::env::var("VERIF_VERBOSE").is_ok();
    std::panic::set_hook(Box::new(move |info| {
        let location = info
            .location()
            .map(|l| format!("{}:{}", l.file(), l.line()))
            .unwrap_or_default();
        let message = if let Some(s) = info.payload().downcast_ref::<&str>() {
            s.to_string()
        } else if let Some(s) = info.payload().downcast_ref::<String>() {
            s.clone()
        } else {
            "panic".to_string()
        };
        let text = format!("{message} @ {location}");
        if verbose {
            eprintln!("[panic] {text}");
        }
        LAST_PANIC.with(|p| *p.borrow_mut() = Some(text));
    }));
}

impl SimRuntime for SimInner {
    fn spawn(&self, name: &'static str, future: LocalFuture) {
        self.spawn_in(self.current_group.get(), name, future);
    }

    fn should_yield(&self, _site: &'static str) -> bool {
        if self.dead.get() {
            return false;
        }
        let p = self.cfg.yield_prob;
        if p <= 0.0 {
            return false;
        }
        let yes = self.sched_rng.borrow_mut().chance(p);
        if yes {
            self.yields.set(self.yields.get() + 1);
        }
        yes
    }

    fn now_micros(&self) -> u64 {
        let elapsed = match self.start.get() {
            Some(start) => tokio::time::Instant::now().duration_since(start).as_micros() as u64,
            None => 0,
        };
        let ticks = self.ticks.get() + self.cfg.auto_tick_micros;
        self.ticks.set(ticks);
        (self.cfg.epoch_micros + elapsed + ticks).saturating_add_signed(self.skew_micros.get())
    }

    fn fs_defer_writes(&self, path: &Path) -> bool {
        if !self.cfg.defer_writes || self.dead.get() {
            return false;
        }
        let deferred = !matches!(classify(path), PathClass::Other);
        if deferred {
            self.deferred_writes.set(self.deferred_writes.get() + 1);
        }
        deferred
    }

    fn fs_fault(&self, op: FsOp, path: &Path, len: usize) -> FsFault {
        let mut fs = self.fs.borrow_mut();
        let class = classify(path);
        let key = (class.clone(), op_code(op));
        let nth = *fs.occurrences.get(&key).unwrap_or(&0);
        fs.occurrences.insert(key, nth + 1);
        let name = match op {
            FsOp::Open => "open",
            FsOp::Write => "write",
            FsOp::Read => "read",
            FsOp::Sync => "sync",
            FsOp::Metadata => "metadata",
            FsOp::SetLen => "set_len",
            FsOp::Remove => "remove",
            FsOp::RemoveDir => "remove_dir",
            FsOp::CreateDir => "create_dir",
            FsOp::Rename => "rename",
            FsOp::ReadDir => "read_dir",
        };
        *fs.op_counts.entry(name).or_insert(0) += 1;
        if !fs.armed {
            return self.write_limit(&fs, op, len);
        }
        if let Some(position) = fs
            .plan
            .iter()
            .position(|f| f.class == class && f.op == op && f.nth == nth)
        {
            let planned = fs.plan.remove(position);
            fs.fired
                .push((class, op, nth, planned.fault.clone()));
            return planned.fault;
        }
        if fs.random_rate > 0.0 && fs.random_classes.contains(&class) && fs.cooldown > 0 {
            fs.cooldown -= 1;
        } else if fs.random_rate > 0.0 && fs.random_classes.contains(&class) {
            let mut rng = self.fault_rng.borrow_mut();
            if rng.chance(fs.random_rate) {
                let fault = match op {
                    FsOp::Write if len > 1 && rng.chance(0.5) => FsFault::TornThenError(
                        rng.below(len as u64) as usize,
                        io::ErrorKind::Other,
                    ),
                    FsOp::Write | FsOp::Open | FsOp::Sync | FsOp::Remove => {
                        FsFault::Error(if rng.chance(0.5) {
                            io::ErrorKind::Other
                        } else {
                            io::ErrorKind::StorageFull
                        })
                    }
                    _ => FsFault::None,
                };
                if fault != FsFault::None {
                    fs.fired.push((class, op, nth, fault.clone()));
                    fs.cooldown = 8;
                    return fault;
                }
            }
        }
        self.write_limit(&fs, op, len)
    }

    fn fs_event(&self, event: FsEvent) {
        let mut fs = self.fs.borrow_mut();
        if fs.record {
            fs.log.push(event);
        }
    }

    fn connect(&self, _address: &str) -> io::Result<(SimStream, SocketAddr, SocketAddr)> {
        let listener = self.listener.borrow().clone();
        match listener {
            Some(listener) => {
                let (client_end, server_end) = tokio::io::duplex(self.cfg.pipe_capacity);
                let port = self.next_port.get();
                self.next_port.set(port.wrapping_add(1).max(1024));
                let local: SocketAddr = format!("10.0.0.2:{port}").parse().unwrap();
                let remote: SocketAddr = "10.0.0.1:8090".parse().unwrap();
                self.connections.set(self.connections.get() + 1);
                listener(server_end, local);
                Ok((client_end, local, remote))
            }
            None => Err(io::Error::new(
                io::ErrorKind::ConnectionRefused,
                "simulated server is down",
            )),
        }
    }

    fn is_dead(&self) -> bool {
        self.dead.get()
    }

    fn http_call(&self, request: reqwest::Request) -> HttpAnswer {
        let handler = self.http_handler.borrow().clone();
        match handler {
            Some(handler) => handler(request),
            None => Box::pin(async { Err("the simulated server is down".to_string()) }),
        }
    }
}

impl SimInner {
    fn write_limit(&self, fs: &FsState, op: FsOp, len: usize) -> FsFault {
        if op == FsOp::Write {
            if let Some(max) = fs.max_write {
                if len > max {
                    return FsFault::Short(max);
                }
            }
        }
        FsFault::None
    }

    fn spawn_in(&self, group: u32, name: &'static str, future: LocalFuture) {
        let id = self.next_actor_id.get();
        self.next_actor_id.set(id + 1);
        let priority = self.sched_rng.borrow_mut().next_u64() | (1 << 63);
        let flag = Arc::new(WakeFlag {
            ready: AtomicBool::new(true),
            root: self.root_waker.clone(),
        });
        self.spawned.borrow_mut().push(Actor {
            id,
            name,
            group,
            future: Some(future),
            flag,
            priority,
        });
    }

    fn mix(&self, value: u64) {
        let mut h = self.trace_hash.get();
        h ^= value.wrapping_add(0x9E37_79B9_7F4A_7C15);
        h = h.wrapping_mul(0x1000_0000_01b3).rotate_left(23);
        self.trace_hash.set(h);
    }

    fn choose(&self, ready: &[usize], actors: &[Actor]) -> usize {
        if ready.len() == 1 {
            return ready[0];
        }
        self.multi_choice_steps
            .set(self.multi_choice_steps.get() + 1);
        if ready.len() > self.max_runnable.get() {
            self.max_runnable.set(ready.len());
        }
        let mut rng = self.sched_rng.borrow_mut();
        match &self.cfg.policy {
            SchedPolicy::Random => ready[rng.usize_below(ready.len())],
            SchedPolicy::Fifo => ready[0],
            SchedPolicy::Pct { .. } => *ready
                .iter()
                .max_by_key(|i| actors[**i].priority)
                .unwrap(),
            SchedPolicy::StarveBackground => {
                if actors[ready[0]].id == 0 && rng.chance(0.9) {
                    ready[0]
                } else {
                    ready[rng.usize_below(ready.len())]
                }
            }
            SchedPolicy::EagerBackground => {
                if actors[ready[0]].id == 0 && rng.chance(0.9) {
                    ready[1 + rng.usize_below(ready.len() - 1)]
                } else {
                    ready[rng.usize_below(ready.len())]
                }
            }
        }
    }
}

impl Sim {
    pub fn new(cfg: SimConfig) -> Sim {
        let seed = cfg.seed;
        let mut change_points = Vec::new();
        if let SchedPolicy::Pct { depth } = &cfg.policy {
            let mut rng = Rng::substream(seed, "pct");
            for _ in 0..*depth {
                change_points.push(rng.below(20_000));
            }
        }
        Sim {
            inner: Rc::new(SimInner {
                cfg,
                actors: RefCell::new(Vec::new()),
                spawned: RefCell::new(Vec::new()),
                next_actor_id: Cell::new(0),
                current_group: Cell::new(0),
                current_actor: Cell::new(0),
                root_waker: Arc::new(Mutex::new(None)),
                sched_rng: RefCell::new(Rng::substream(seed, "sched")),
                fault_rng: RefCell::new(Rng::substream(seed, "fault")),
                pct_change_points: RefCell::new(change_points),
                steps: Cell::new(0),
                trace_hash: Cell::new(seed),
                settling: Cell::new(false),
                settle_done: Cell::new(false),
                dead: Cell::new(false),
                start: Cell::new(None),
                skew_micros: Cell::new(0),
                ticks: Cell::new(0),
                fs: RefCell::new(FsState {
                    record: true,
                    ..Default::default()
                }),
                listener: RefCell::new(None),
                http_handler: RefCell::new(None),
                deferred_writes: Cell::new(0),
                next_port: Cell::new(40000),
                panics: RefCell::new(Vec::new()),
                connections: Cell::new(0),
                yields: Cell::new(0),
                max_runnable: Cell::new(1),
                multi_choice_steps: Cell::new(0),
                stop: RefCell::new(None),
                actor_steps: RefCell::new(BTreeMap::new()),
                final_sim_micros: Cell::new(0),
            }),
        }
    }

    /// Runs `main` (actor 0) to completion under the simulator.
    pub fn block_on<T: 'static>(
        &self,
        main: impl Future<Output = T> + 'static,
    ) -> Result<T, SimStop> {
        let seed_bytes = self.inner.cfg.seed.to_le_bytes();
        let runtime = tokio::runtime::Builder::new_current_thread()
            .enable_time()
            .start_paused(true)
            .rng_seed(tokio::runtime::RngSeed::from_bytes(&seed_bytes))
            .on_thread_start(|| {
                // The only thread that may ever start is a blocking-pool thread: something escaped.
                EXTRA_THREAD.store(true, Ordering::SeqCst);
            })
            .build()
            .expect("tokio runtime");
        let result: Rc<RefCell<Option<T>>> = Rc::new(RefCell::new(None));
        let slot = result.clone();
        let inner = self.inner.clone();
        inner.spawn_in(
            0,
            "main",
            Box::pin(async move {
                let value = main.await;
                *slot.borrow_mut() = Some(value);
            }),
        );
        iggy::verif::install(Some(self.inner.clone() as Rc<dyn SimRuntime>));
        let sim = self.clone();
        let outcome = runtime.block_on(async move {
            sim.inner.start.set(Some(tokio::time::Instant::now()));
            let outcome = std::future::poll_fn(|cx| sim.poll_root(cx)).await;
            let elapsed = sim.inner.start.get().map(|s| tokio::time::Instant::now().duration_since(s).as_micros() as u64).unwrap_or(0);
            sim.inner.final_sim_micros.set(elapsed + sim.inner.ticks.get());
            outcome
        });
        // Whatever is still alive dies with the simulated world.
        self.inner.dead.set(true);
        self.inner.listener.borrow_mut().take();
        self.inner.http_handler.borrow_mut().take();
        let leftovers: Vec<Actor> = self.inner.actors.borrow_mut().drain(..).collect();
        drop(leftovers);
        let leftovers: Vec<Actor> = self.inner.spawned.borrow_mut().drain(..).collect();
        drop(leftovers);
        let metrics = runtime.metrics();
        let alive = metrics.num_alive_tasks();
        drop(runtime);
        iggy::verif::install(None);
        if EXTRA_THREAD.swap(false, Ordering::SeqCst) {
            return Err(SimStop::Escaped("a runtime thread was started".into()));
        }
        if alive > 0 {
            return Err(SimStop::Escaped(format!(
                "{alive} real tokio tasks were spawned"
            )));
        }
        match outcome {
            Ok(()) => match result.borrow_mut().take() {
                Some(value) => Ok(value),
                None => {
                    let message = self.inner.panics.borrow().iter().rev().find(|p| p.starts_with("actor main#0")).cloned().unwrap_or_else(|| "main actor ended without a result".into());
                    Err(SimStop::MainPanicked(message))
                }
            },
            Err(stop) => Err(stop),
        }
    }

    fn poll_root(&self, cx: &mut Context<'_>) -> Poll<Result<(), SimStop>> {
        let inner = &self.inner;
        *inner.root_waker.lock().unwrap() = Some(cx.waker().clone());
        loop {
            if let Some(stop) = inner.stop.borrow_mut().take() {
                return Poll::Ready(Err(stop));
            }
            {
                let mut spawned = inner.spawned.borrow_mut();
                if !spawned.is_empty() {
                    inner.actors.borrow_mut().append(&mut spawned);
                }
            }
            let (chosen, future, waker, actor_id, group) = {
                let actors = inner.actors.borrow();
                let ready: Vec<usize> = actors
                    .iter()
                    .enumerate()
                    .filter(|(_, a)| a.flag.ready.load(Ordering::SeqCst) && a.future.is_some())
                    .map(|(i, _)| i)
                    .collect();
                if ready.is_empty() {
                    if inner.settling.get() {
                        inner.settling.set(false);
                        inner.settle_done.set(true);
                        if let Some(main) = actors.iter().find(|a| a.id == 0) {
                            main.flag.ready.store(true, Ordering::SeqCst);
                            continue;
                        }
                    }
                    if !actors.iter().any(|a| a.id == 0) {
                        return Poll::Ready(Ok(()));
                    }
                    return Poll::Pending;
                }
                let chosen = inner.choose(&ready, &actors);
                drop(actors);
                let mut actors = inner.actors.borrow_mut();
                let actor = &mut actors[chosen];
                actor.flag.ready.store(false, Ordering::SeqCst);
                (
                    chosen,
                    actor.future.take().unwrap(),
                    Waker::from(actor.flag.clone()),
                    actor.id,
                    actor.group,
                )
            };
            let step = inner.steps.get() + 1;
            inner.steps.set(step);
            if step > inner.cfg.step_budget / 2 {
                let name = inner.actors.borrow().iter().find(|a| a.id == actor_id).map(|a| a.name).unwrap_or("?");
                *inner.actor_steps.borrow_mut().entry((name, actor_id)).or_insert(0) += 1;
            }
            inner.mix(actor_id);
            if step > inner.cfg.step_budget {
                return Poll::Ready(Err(SimStop::Budget));
            }
            if matches!(inner.cfg.policy, SchedPolicy::Pct { .. }) {
                let mut points = inner.pct_change_points.borrow_mut();
                if let Some(position) = points.iter().position(|p| *p == step) {
                    points.remove(position);
                    // lowest priority so far: below every initial priority (those have bit 63 set)
                    let mut actors = inner.actors.borrow_mut();
                    actors[chosen].priority = (1 << 62) - step;
                }
            }
            inner.current_group.set(group);
            inner.current_actor.set(actor_id);
            let mut future = future;
            let mut actor_cx = Context::from_waker(&waker);
            let polled = catch_unwind(AssertUnwindSafe(|| {
                tokio::task::unconstrained(future.as_mut())
                    .as_mut_poll(&mut actor_cx)
            }));
            inner.current_group.set(0);
            let mut actors = inner.actors.borrow_mut();
            // kill_group may have removed actors during the poll: find ours again by id
            let position = actors.iter().position(|a| a.id == actor_id);
            match polled {
                Ok(Poll::Pending) => {
                    if let Some(position) = position {
                        actors[position].future = Some(future);
                    } else {
                        drop(actors);
                        drop(future);
                    }
                }
                Ok(Poll::Ready(())) => {
                    if let Some(position) = position {
                        actors.remove(position);
                    }
                    drop(actors);
                    drop(future);
                    if actor_id == 0 {
                        return Poll::Ready(Ok(()));
                    }
                }
                Err(_) => {
                    let message = LAST_PANIC
                        .with(|p| p.borrow_mut().take())
                        .unwrap_or_else(|| "panic".into());
                    let name = position.map(|p| actors[p].name).unwrap_or("?");
                    inner
                        .panics
                        .borrow_mut()
                        .push(format!("actor {name}#{actor_id}: {message}"));
                    if let Some(position) = position {
                        actors.remove(position);
                    }
                    drop(actors);
                    // dropping the future of a panicked actor may panic again; contain it
                    let _ = catch_unwind(AssertUnwindSafe(move || drop(future)));
                    if actor_id == 0 {
                        return Poll::Ready(Ok(()));
                    }
                }
            }
        }
    }

    pub fn spawn(&self, group: u32, name: &'static str, future: impl Future<Output = ()> + 'static) {
        self.inner.spawn_in(group, name, Box::pin(future));
    }

    /// Runs `future` as an actor of `group` and returns its value (`None` if it panicked or was killed).
    pub async fn run_as<T: 'static>(
        &self,
        group: u32,
        name: &'static str,
        future: impl Future<Output = T> + 'static,
    ) -> Option<T> {
        let (sender, receiver) = tokio::sync::oneshot::channel();
        self.spawn(group, name, async move {
            let value = future.await;
            let _ = sender.send(value);
        });
        receiver.await.ok()
    }

    /// Waits until no actor other than the caller (the main actor) is runnable. Time does not move.
    pub async fn settle(&self) {
        let inner = self.inner.clone();
        inner.settle_done.set(false);
        std::future::poll_fn(move |_cx| {
            if inner.settle_done.get() {
                inner.settle_done.set(false);
                Poll::Ready(())
            } else {
                inner.settling.set(true);
                Poll::Pending
            }
        })
        .await
    }

    /// Lets simulated time pass; other actors and timers run meanwhile.
    pub async fn sleep(&self, duration: Duration) {
        tokio::time::sleep(duration).await;
    }

    pub fn jump_wall_clock(&self, delta_micros: i64) {
        self.inner
            .skew_micros
            .set(self.inner.skew_micros.get() + delta_micros);
    }

    pub fn now_micros(&self) -> u64 {
        // reading the clock for logging must not move it
        let ticks = self.inner.ticks.get();
        let value = self.inner.now_micros();
        self.inner.ticks.set(ticks);
        value
    }

    /// Drops every actor of `group` (a killed process): futures are dropped in id order.
    pub fn kill_group(&self, group: u32) {
        let mut victims = Vec::new();
        {
            let mut actors = self.inner.actors.borrow_mut();
            let mut index = 0;
            while index < actors.len() {
                if actors[index].group == group {
                    victims.push(actors.remove(index));
                } else {
                    index += 1;
                }
            }
            let mut spawned = self.inner.spawned.borrow_mut();
            let mut index = 0;
            while index < spawned.len() {
                if spawned[index].group == group {
                    victims.push(spawned.remove(index));
                } else {
                    index += 1;
                }
            }
        }
        for victim in victims {
            let _ = catch_unwind(AssertUnwindSafe(move || drop(victim)));
        }
    }

    pub fn group_actor_count(&self, group: u32) -> usize {
        self.inner
            .actors
            .borrow()
            .iter()
            .chain(self.inner.spawned.borrow().iter())
            .filter(|a| a.group == group)
            .count()
    }

    pub fn set_dead(&self, dead: bool) {
        self.inner.dead.set(dead);
    }

    pub fn set_http_handler(&self, handler: Option<HttpHandler>) {
        *self.inner.http_handler.borrow_mut() = handler;
    }

    pub fn set_listener(&self, listener: Option<Listener>) {
        *self.inner.listener.borrow_mut() = listener;
    }

    pub fn steps(&self) -> u64 {
        self.inner.steps.get()
    }

    pub fn trace_hash(&self) -> u64 {
        self.inner.trace_hash.get()
    }

    pub fn mix_trace(&self, value: u64) {
        self.inner.mix(value);
    }

    pub fn panics(&self) -> Vec<String> {
        self.inner.panics.borrow().clone()
    }

    pub fn take_panics(&self) -> Vec<String> {
        std::mem::take(&mut *self.inner.panics.borrow_mut())
    }

    pub fn elapsed(&self) -> Duration {
        match self.inner.start.get() {
            Some(start) => tokio::time::Instant::now().duration_since(start),
            None => Duration::ZERO,
        }
    }

    pub fn arm_faults(&self, armed: bool) {
        self.inner.fs.borrow_mut().armed = armed;
    }

    pub fn fs_log_len(&self) -> usize {
        self.inner.fs.borrow().log.len()
    }

    pub fn stop_with(&self, stop: SimStop) {
        *self.inner.stop.borrow_mut() = Some(stop);
    }
}

trait PollExt {
    fn as_mut_poll(&mut self, cx: &mut Context<'_>) -> Poll<()>;
}

impl<F: Future<Output = ()> + Unpin> PollExt for tokio::task::Unconstrained<F> {
    fn as_mut_poll(&mut self, cx: &mut Context<'_>) -> Poll<()> {
        Pin::new(self).poll(cx)
    }
}

/// Rebuilds a directory from a prefix of a mutation log (crash images).
pub fn apply_event(root_from: &Path, root_to: &Path, event: &FsEvent) -> io::Result<()> {
    let map = |p: &PathBuf| -> PathBuf {
        match p.strip_prefix(root_from) {
            Ok(rest) => root_to.join(rest),
            Err(_) => p.clone(),
        }
    };
    match event {
        FsEvent::Create { path } => {
            let path = map(path);
            if let Some(parent) = path.parent() {
                std::fs::create_dir_all(parent)?;
            }
            std::fs::OpenOptions::new()
                .create(true)
                .write(true)
                .truncate(false)
                .open(path)?;
        }
        FsEvent::Write { path, offset, data } => {
            use std::os::unix::fs::FileExt;
            let file = std::fs::OpenOptions::new().write(true).open(map(path))?;
            file.write_all_at(data, *offset)?;
        }
        FsEvent::SetLen { path, len } => {
            let file = std::fs::OpenOptions::new().write(true).open(map(path))?;
            file.set_len(*len)?;
        }
        FsEvent::Rename { from, to } => std::fs::rename(map(from), map(to))?,
        FsEvent::Unlink { path } => std::fs::remove_file(map(path))?,
        FsEvent::Mkdir { path } => std::fs::create_dir_all(map(path))?,
        FsEvent::RemoveDirAll { path } => {
            let path = map(path);
            if path.exists() {
                std::fs::remove_dir_all(path)?;
            }
        }
        FsEvent::Sync { .. } => {}
    }
    Ok(())
}
