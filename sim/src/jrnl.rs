//! C11: the state journal. (a) concurrent journalling commands under seeded I/O-granular schedules and
//! injected append failures; (b) every single-byte mutation, truncation and entry permutation of a
//! harvested journal, fed to the real loader.

use crate::gen::Case;
use crate::harness::Violation;
use crate::ops::{IdRef, MsgSpec};
use crate::rng::Rng;
use crate::rt::{PathClass, Sim};
use crate::scen::{scratch_dir, RunOutput};
use crate::world::{StopKind, World};
use iggy::client::*;
use iggy::compression::compression_algorithm::CompressionAlgorithm;
use iggy::messages::send_messages::{Message, Partitioning};
use iggy::utils::expiry::IggyExpiry;
use iggy::utils::topic_size::MaxTopicSize;
use server::state::entry::StateEntry;
use server::state::file::FileState;
use server::state::State;
use server::streaming::persistence::persister::{FilePersister, PersisterKind};
use server::versioning::SemanticVersion;
use std::cell::RefCell;
use std::collections::BTreeSet;
use std::path::Path;
use std::rc::Rc;
use std::sync::Arc;

#[derive(Debug, Clone)]
struct Issued {
    what: String,
    /// name of the entity created (streams: "s:<name>", topics: "t:<name>", users: "u:<name>")
    creates: Option<String>,
    deletes: Option<String>,
    acked: bool,
    invoke: u64,
    ret: u64,
}

fn load_with_real_loader(path: &Path) -> Result<Result<Vec<StateEntry>, String>, String> {
    let path = path.to_string_lossy().to_string();
    thread_local! {
        static RUNTIME: tokio::runtime::Runtime = tokio::runtime::Builder::new_current_thread().build().unwrap();
    }
    let outcome = std::panic::catch_unwind(|| {
        RUNTIME.with(|runtime| runtime.block_on(async move {
            let state = FileState::new(&path, &SemanticVersion::current().unwrap(), Arc::new(PersisterKind::File(FilePersister)), None);
            state.load_entries().await.map_err(|e| e.as_string().to_string())
        }))
    });
    match outcome {
        Ok(r) => Ok(r),
        Err(_) => Err("panic".into()),
    }
}

fn same_entry(a: &StateEntry, b: &StateEntry) -> bool {
    a.index == b.index && a.term == b.term && a.leader_id == b.leader_id && a.version == b.version && a.flags == b.flags && a.timestamp.as_micros() == b.timestamp.as_micros() && a.user_id == b.user_id && a.checksum == b.checksum && a.context == b.context && a.command == b.command
}

/// Byte ranges of the entries of a journal (own parser of the documented layout).
fn entry_ranges(bytes: &[u8]) -> Option<Vec<(usize, usize)>> {
    let mut out = Vec::new();
    let mut at = 0usize;
    while at < bytes.len() {
        let start = at;
        if at + 52 > bytes.len() {
            return None;
        }
        let context_length = u32::from_le_bytes(bytes[at + 48..at + 52].try_into().ok()?) as usize;
        at += 52 + context_length;
        if at + 8 > bytes.len() {
            return None;
        }
        let command_length = u32::from_le_bytes(bytes[at + 4..at + 8].try_into().ok()?) as usize;
        at += 8 + command_length;
        if at > bytes.len() {
            return None;
        }
        out.push((start, at));
    }
    Some(out)
}

pub fn run_jrnl(case: &Case) -> RunOutput {
    let mut out = RunOutput { seed: case.seed, prop: case.prop.clone(), ..Default::default() };
    let dir = scratch_dir(case.seed);
    let _ = std::fs::remove_dir_all(&dir);
    std::fs::create_dir_all(&dir).expect("scratch dir");
    crate::determinism::reset_hash_seeds();
    let sim = Sim::new(case.sim_config());
    let world = World::new(sim.clone(), dir.clone(), case.knobs.clone());
    let issued: Rc<RefCell<Vec<Issued>>> = Rc::new(RefCell::new(Vec::new()));
    let seed = case.seed;
    let w = world.clone();
    let log = issued.clone();
    let mut config_rng = Rng::substream(seed, "jrnl-config");
    let fault_arm = config_rng.chance(0.5);
    let fault_rate = *config_rng.pick(&[0.03, 0.08, 0.2]);
    // the tamper sweep costs about fifty times the concurrent phase: one run in eight carries it, so that
    // the same budget explores many more interleavings of journalling calls with append faults
    let tamper_arm = config_rng.chance(0.125);
    let state_path = format!("{}/state/log", world.data_path());
    let result = sim.block_on(async move {
        let mut rng = Rng::substream(seed, "jrnl");
        w.start().await.map_err(|e| format!("first start failed: {e:?}"))?;
        let admin = w.root_client().await.map_err(|e| format!("admin: {e:?}"))?;
        let s1 = IdRef::Num(1).to_identifier();
        admin.create_stream("base", Some(1)).await.map_err(|e| format!("{e:?}"))?;
        for t in 1..=2u32 {
            admin.create_topic(&s1, &format!("base-{t}"), 1, CompressionAlgorithm::None, None, Some(t), IggyExpiry::NeverExpire, MaxTopicSize::Unlimited).await.map_err(|e| format!("{e:?}"))?;
            let mut messages: Vec<Message> = (0..3).map(|i| MsgSpec { id: 100 + i, salt: t, len: 10, headers: 0 }.to_message()).collect();
            let _ = admin.send_messages(&s1, &IdRef::Num(t).to_identifier(), &Partitioning::partition_id(1), &mut messages).await;
        }
        w.sim.settle().await;
        if fault_arm {
            let mut fs = w.sim.inner.fs.borrow_mut();
            fs.random_rate = fault_rate;
            fs.random_classes = vec![PathClass::StateLog];
            fs.armed = true;
        }
        let clients = 2 + rng.usize_below(3);
        let per_client = 3 + rng.usize_below(8);
        let mut done = Vec::new();
        for c in 0..clients {
            let (tx, rx) = tokio::sync::oneshot::channel::<()>();
            done.push(rx);
            let w2 = w.clone();
            let log = log.clone();
            let mut crng = Rng::substream(seed, &format!("jrnl-client{c}"));
            w.sim.spawn(0, "journalling-client", async move {
                let Ok(client) = w2.root_client().await else {
                    let _ = tx.send(());
                    return;
                };
                let s1 = IdRef::Num(1).to_identifier();
                let mut mine: Vec<String> = Vec::new();
                for i in 0..per_client {
                    let invoke = w2.sim.steps();
                    let (what, creates, deletes, ok): (String, Option<String>, Option<String>, bool) = match crng.below(11) {
                        // an update that keeps the name (the usual way to change an expiry), addressed by id or
                        // by name: later entries address the same topic by name, and replay must follow
                        10 => {
                            let t = 1 + crng.below(2) as u32;
                            let name = format!("base-{t}");
                            let target = if crng.chance(0.5) { IdRef::Num(t) } else { IdRef::Name(name.clone()) };
                            let expiry = if crng.chance(0.5) { IggyExpiry::NeverExpire } else { IggyExpiry::ExpireDuration(iggy::utils::duration::IggyDuration::from(3_600_000_000u64)) };
                            let ok = client.update_topic(&s1, &target.to_identifier(), &name, CompressionAlgorithm::None, None, expiry, MaxTopicSize::Unlimited).await.is_ok();
                            (format!("update_topic {name}"), None, None, ok)
                        }
                        // purge commands journal while holding only the shared system lock
                        0..=3 => {
                            if crng.chance(0.5) {
                                ("purge_stream".into(), None, None, client.purge_stream(&s1).await.is_ok())
                            } else {
                                let t = 1 + crng.below(2) as u32;
                                let target = if crng.chance(0.5) { IdRef::Num(t) } else { IdRef::Name(format!("base-{t}")) };
                                (format!("purge_topic {t}"), None, None, client.purge_topic(&s1, &target.to_identifier()).await.is_ok())
                            }
                        }
                        4 | 5 => {
                            let name = format!("stream-c{c}-{i}");
                            let ok = client.create_stream(&name, None).await.is_ok();
                            (format!("create_stream {name}"), Some(format!("s:{name}")), None, ok)
                        }
                        6 | 7 => {
                            let name = format!("topic-c{c}-{i}");
                            let ok = client.create_topic(&s1, &name, 1, CompressionAlgorithm::None, None, None, IggyExpiry::NeverExpire, MaxTopicSize::Unlimited).await.is_ok();
                            if ok {
                                mine.push(name.clone());
                            }
                            (format!("create_topic {name}"), Some(format!("t:{name}")), None, ok)
                        }
                        8 => match mine.pop() {
                            Some(name) => {
                                let ok = client.delete_topic(&s1, &IdRef::Name(name.clone()).to_identifier()).await.is_ok();
                                (format!("delete_topic {name}"), None, Some(format!("t:{name}")), ok)
                            }
                            None => ("ping".into(), None, None, client.ping().await.is_ok()),
                        },
                        _ => {
                            let name = format!("user-c{c}-{i}");
                            let ok = client.create_user(&name, "some-secret-pw", iggy::models::user_status::UserStatus::Active, None).await.is_ok();
                            (format!("create_user {name}"), Some(format!("u:{name}")), None, ok)
                        }
                    };
                    let ret = w2.sim.steps();
                    log.borrow_mut().push(Issued { what, creates, deletes, acked: ok, invoke, ret });
                }
                let _ = tx.send(());
            });
        }
        for rx in done {
            let _ = rx.await;
        }
        w.sim.settle().await;
        w.sim.arm_faults(false);
        drop(admin);
        Ok::<(), String>(())
    });
    out.steps = sim.steps();
    if sim.inner.deferred_writes.get() > 0 {
        out.extra.insert("file_writes_completed_later".into(), sim.inner.deferred_writes.get());
    }
    out.sim_micros = sim.inner.final_sim_micros.get();
    out.trace_hash = format!("{:016x}", sim.trace_hash());
    out.multi_choice_steps = sim.inner.multi_choice_steps.get();
    out.yields = sim.inner.yields.get();
    {
        let fs = sim.inner.fs.borrow();
        out.faults_fired = fs.fired.iter().map(|f| format!("{:?}:{:?}#{}:{:?}", f.0, f.1, f.2, f.3)).collect();
        out.fs_mutations = fs.log.len();
    }
    let mode = if fault_arm { "append_faults" } else { "fault_free" };
    let mut push = |out: &mut RunOutput, oracle: &'static str, tag: String, detail: String| {
        if out.violations.len() < 30 {
            out.violations.push(Violation { prop: "C11", oracle, tag, detail, op_index: 0 });
        }
    };
    for p in sim.take_panics() {
        push(&mut out, "no_panic", format!("{}@{mode}", crate::harness::panic_tag(&p)), p.chars().take(200).collect());
    }
    match result {
        Ok(Ok(())) => {}
        Ok(Err(e)) => {
            out.harness_error = Some(e);
            let _ = std::fs::remove_dir_all(&dir);
            return out;
        }
        Err(crate::rt::SimStop::MainPanicked(message)) => {
            crate::scen::main_panicked("C11", &message, &mut out);
            let _ = std::fs::remove_dir_all(&dir);
            return out;
        }
        Err(stop) => {
            push(&mut out, "bounded_liveness", format!("run_never_ends@{mode}"), format!("{stop:?}"));
            let _ = std::fs::remove_dir_all(&dir);
            return out;
        }
    }
    let issued = issued.borrow().clone();
    let overlapping = issued.iter().filter(|a| issued.iter().any(|b| !std::ptr::eq(*a, b) && b.invoke < a.ret && a.invoke < b.ret)).count();
    out.extra.insert("journalled_commands_issued".into(), issued.len() as u64);
    out.extra.insert("commands_overlapping_another".into(), overlapping as u64);
    out.extra.insert("commands_failed".into(), issued.iter().filter(|i| !i.acked).count() as u64);
    // ---- (a) the journal the concurrent run left behind
    let journal = std::fs::read(&state_path).unwrap_or_default();
    if std::env::var("VERIF_VERBOSE").is_ok() {
        for i in &issued {
            eprintln!("[issued] {:?}", i);
        }
        if let Ok(Ok(entries)) = load_with_real_loader(Path::new(&state_path)) {
            for e in &entries {
                eprintln!("[journal] #{} user {} {}", e.index, e.user_id, e.command().map(|c| format!("{c}")).unwrap_or_default());
            }
        }
        let fs = sim.inner.fs.borrow();
        for f in &fs.fired {
            eprintln!("[fault] {:?}", f);
        }
    }
    let loaded = load_with_real_loader(Path::new(&state_path));
    let entries = match loaded {
        Err(_) => {
            push(&mut out, "journal_loadable", format!("loader_panics@{mode}"), "the loader panics on the journal written by the server itself".into());
            None
        }
        Ok(Err(e)) => {
            let ranges = entry_ranges(&journal);
            let indices: Vec<u64> = ranges.as_ref().map(|r| r.iter().map(|(a, _)| u64::from_le_bytes(journal[*a..*a + 8].try_into().unwrap())).collect()).unwrap_or_default();
            let cause = if ranges.is_none() {
                "torn_entry_in_file"
            } else if indices.windows(2).any(|w| w[1] <= w[0]) {
                "indices_out_of_order"
            } else if indices.windows(2).any(|w| w[1] != w[0] + 1) {
                "index_gap"
            } else {
                "other"
            };
            push(&mut out, "journal_loadable", format!("{cause}@{mode}"), format!("the journal written by the server cannot be loaded ({e}); entry indices in file order: {indices:?}"));
            None
        }
        Ok(Ok(entries)) => {
            let indices: Vec<u64> = entries.iter().map(|e| e.index).collect();
            if indices.windows(2).any(|w| w[1] != w[0] + 1) {
                push(&mut out, "indices_consecutive", format!("not_consecutive@{mode}"), format!("indices in file order: {indices:?}"));
            }
            Some(entries)
        }
    };
    // ---- a fresh start from that journal, and the acknowledged commands
    {
        crate::determinism::reset_hash_seeds();
        let sim2 = Sim::new(case.sim_config());
        let world2 = World::new(sim2.clone(), dir.clone(), case.knobs.clone());
        let w2 = world2.clone();
        let issued2 = issued.clone();
        let outcome = sim2.block_on(async move {
            let mut found: Vec<(&'static str, String, String)> = Vec::new();
            if let Err(e) = w2.start().await {
                found.push(("server_starts_from_journal", format!("init_error:{}", e.as_string()), format!("the server cannot start from its own journal: {e:?}")));
                return found;
            }
            let Ok(client) = w2.root_client().await else { return found };
            let streams: BTreeSet<String> = client.get_streams().await.map(|l| l.into_iter().map(|s| s.name).collect()).unwrap_or_default();
            let topics: BTreeSet<String> = client.get_topics(&IdRef::Num(1).to_identifier()).await.map(|l| l.into_iter().map(|t| t.name).collect()).unwrap_or_default();
            let users: BTreeSet<String> = client.get_users().await.map(|l| l.into_iter().map(|u| u.username).collect()).unwrap_or_default();
            let deleted: BTreeSet<String> = issued2.iter().filter(|i| i.acked).filter_map(|i| i.deletes.clone()).collect();
            // a delete whose journal write failed was refused, but may have taken effect in memory (that is
            // C06's subject); under append faults the entity may legitimately be gone
            let delete_attempted: BTreeSet<String> = issued2.iter().filter_map(|i| i.deletes.clone()).collect();
            for i in issued2.iter().filter(|i| i.acked) {
                if let Some(name) = &i.creates {
                    if delete_attempted.contains(name) {
                        continue;
                    }
                    let (kind, n) = name.split_once(':').unwrap();
                    let present = match kind {
                        "s" => streams.contains(n),
                        "t" => topics.contains(n),
                        _ => users.contains(n),
                    };
                    if !present {
                        found.push(("acknowledged_command_survives", "acknowledged_entity_missing".into(), format!("'{}' was acknowledged but is gone after a restart", i.what)));
                    }
                }
            }
            for name in &deleted {
                let (kind, n) = name.split_once(':').unwrap();
                if kind == "t" && topics.contains(n) {
                    found.push(("acknowledged_command_survives", "deleted_entity_resurrected".into(), format!("topic {n} was deleted (acknowledged) but is back after a restart")));
                }
            }
            drop(client);
            let _ = w2.stop(StopKind::GracefulDrained).await;
            found
        });
        for p in sim2.take_panics() {
            push(&mut out, "no_panic", format!("{}@restart_{mode}", crate::harness::panic_tag(&p)), p.chars().take(200).collect());
        }
        if let Ok(found) = outcome {
            for (oracle, tag, detail) in found {
                push(&mut out, oracle, format!("{tag}@{mode}"), detail);
            }
        }
    }
    // ---- (b) tamper with the harvested journal
    let mut tampered = 0u64;
    let mut rejected = 0u64;
    let mut accepted_prefix = 0u64;
    if let (true, Some(entries), Some(ranges)) = (tamper_arm, entries, entry_ranges(&journal)) {
        let scratch = dir.join("tampered-journal");
        let mut rng = Rng::substream(seed, "tamper");
        let mut try_mutation = |out: &mut RunOutput, bytes: &[u8], class: &str, detail: String, suffix_loss: bool| {
            std::fs::write(&scratch, bytes).unwrap();
            tampered += 1;
            crate::allocp::reset();
            let loaded = load_with_real_loader(&scratch);
            let asked = crate::allocp::largest();
            if asked > (64 << 20) {
                // a failed allocation aborts the process: a loader that asks for what a damaged length field
                // announces crashes wherever that much memory is not to be had
                push(out, "tamper_never_crashes_loader", format!("huge_allocation:{class}"), format!("{detail}: loading the {}-byte file asked the allocator for {} MiB in one request", bytes.len(), asked >> 20));
            }
            match loaded {
                Err(_) => push(out, "tamper_never_crashes_loader", format!("loader_panics:{class}"), format!("{detail}: the loader panicked")),
                Ok(Err(_)) => rejected += 1,
                Ok(Ok(list)) => {
                    let is_prefix = list.len() <= entries.len() && list.iter().zip(entries.iter()).all(|(a, b)| same_entry(a, b));
                    if is_prefix && (suffix_loss || list.len() == entries.len()) {
                        // the loss of a whole suffix is the one change that may go unnoticed
                        accepted_prefix += 1;
                        if list.len() == entries.len() && !suffix_loss {
                            push(out, "tamper_is_reported", format!("identical_history_accepted:{class}"), format!("{detail}: accepted as the unchanged history although the file differs"));
                        }
                    } else if is_prefix {
                        push(out, "tamper_is_reported", format!("prefix_accepted_silently:{class}"), format!("{detail}: accepted as a prefix ({} of {} entries) although it is not the loss of a whole suffix", list.len(), entries.len()));
                    } else {
                        push(out, "tamper_is_reported", format!("other_history_accepted:{class}"), format!("{detail}: accepted as a different history ({} entries, true history has {})", list.len(), entries.len()));
                    }
                }
            }
        };
        // every truncation length (all for small journals, sampled above)
        // the loader allocates a 512 kB read buffer per load, which bounds how many mutations fit a budget:
        // exhaustive over all positions for journals up to 4 KiB (thorough) / 768 B (quick), sampled above
        let thorough = std::env::var("VERIF_TIER").map(|t| t == "thorough").unwrap_or(false);
        let exhaustive = journal.len() <= if thorough { 4096 } else { 2048 };
        let cuts: Vec<usize> = if exhaustive { (0..journal.len()).collect() } else { (0..if thorough { 600 } else { 250 }).map(|_| rng.usize_below(journal.len())).collect() };
        for cut in cuts {
            let at_boundary = cut == 0 || ranges.iter().any(|(_, e)| *e == cut);
            try_mutation(&mut out, &journal[..cut], if at_boundary { "truncation_at_entry_boundary" } else { "truncation_inside_entry" }, format!("file cut to {cut} of {} bytes", journal.len()), at_boundary);
        }
        // single-byte mutations, length fields included in all four bytes
        let positions: Vec<usize> = if exhaustive { (0..journal.len()).collect() } else { (0..if thorough { 1500 } else { 400 }).map(|_| rng.usize_below(journal.len())).collect() };
        for position in positions {
            let (start, end) = *ranges.iter().find(|(a, b)| position >= *a && position < *b).unwrap();
            let context_length = u32::from_le_bytes(journal[start + 48..start + 52].try_into().unwrap()) as usize;
            let command_length_at = start + 52 + context_length + 4;
            let is_length_msb = position == start + 51 || position == command_length_at + 3;
            let field = match position - start {
                0..=7 => "index",
                8..=31 => "term_leader_version_flags",
                32..=39 => "timestamp",
                40..=43 => "user",
                44..=47 => "checksum",
                48..=51 => "context_length",
                _ if position >= command_length_at && position < command_length_at + 4 => "command_length",
                _ if position >= command_length_at - 4 && position < command_length_at => "command_code",
                _ => "command_payload",
            };
            let _ = (end, is_length_msb);
            let mut mutated = journal.clone();
            let flip = if exhaustive { 1u8 << (position % 8) } else { 1u8 << rng.below(8) };
            mutated[position] ^= flip;
            try_mutation(&mut out, &mutated, &format!("byte_flip:{field}"), format!("byte {position} ({field}) xor {flip:#x}"), false);
        }
        // entry permutations: removal (not at the tail), duplication, adjacent swap
        for i in 0..ranges.len() {
            let (a, b) = ranges[i];
            if i + 1 < ranges.len() {
                let mut removed = journal[..a].to_vec();
                removed.extend_from_slice(&journal[b..]);
                try_mutation(&mut out, &removed, if i == 0 { "first_entry_removed" } else { "middle_entry_removed" }, format!("entry #{i} removed"), false);
                let (c, d) = ranges[i + 1];
                let mut swapped = journal[..a].to_vec();
                swapped.extend_from_slice(&journal[c..d]);
                swapped.extend_from_slice(&journal[a..b]);
                swapped.extend_from_slice(&journal[d..]);
                try_mutation(&mut out, &swapped, "adjacent_entries_swapped", format!("entries #{i} and #{} swapped", i + 1), false);
            }
            let mut duplicated = journal[..b].to_vec();
            duplicated.extend_from_slice(&journal[a..b]);
            duplicated.extend_from_slice(&journal[b..]);
            try_mutation(&mut out, &duplicated, "entry_duplicated", format!("entry #{i} duplicated"), false);
        }
        out.extra.insert("journal_entries".into(), ranges.len() as u64);
        out.extra.insert("tamper_exhaustive_over_positions".into(), exhaustive as u64);
    }
    out.extra.insert("journals_tampered".into(), (tampered > 0) as u64);
    out.extra.insert("tamper_mutations".into(), tampered);
    out.extra.insert("tamper_rejected".into(), rejected);
    out.extra.insert("tamper_accepted_as_prefix".into(), accepted_prefix);
    out.nontrivial = overlapping > 0 && (tampered > 0 || !tamper_arm);
    out.shape = format!("{mode}|tamper{}|{}|y{}|cmds{}|ov{}|faults{}", tamper_arm as u8, case.policy, case.yield_prob, issued.len() / 4, overlapping.min(12), out.faults_fired.len().min(5));
    let _ = std::fs::remove_dir_all(&dir);
    out
}
