//! Running one case (a seed, or a replay file) from start to verdict.

use crate::gen::{Case, Gen};
use crate::harness::{Harness, Opts, Stats, Violation};
use crate::ops::Op;
use crate::rt::{Sim, SimStop};
use crate::world::World;
use serde::Serialize;
use std::collections::BTreeSet;
use std::path::PathBuf;

#[derive(Debug, Serialize, Default)]
pub struct RunOutput {
    pub seed: u64,
    pub prop: String,
    pub violations: Vec<Violation>,
    pub stats: Stats,
    pub steps: u64,
    pub trace_hash: String,
    pub sim_micros: u64,
    pub ops: Vec<Op>,
    pub distinct_states: usize,
    pub state_hashes: Vec<u64>,
    pub faults_fired: Vec<String>,
    pub fs_ops: std::collections::BTreeMap<String, u64>,
    pub fs_mutations: usize,
    pub multi_choice_steps: u64,
    pub max_runnable: usize,
    pub yields: u64,
    pub connections: u64,
    pub harness_error: Option<String>,
    pub nontrivial: bool,
    pub shape: String,
    pub extra: std::collections::BTreeMap<String, u64>,
}

/// Where the simulated data directories live for the length of a run: VERIF_SCRATCH, else /dev/shm when it
/// can be written to, else the system's temporary directory. Nothing is kept there between runs.
pub fn scratch_base() -> String {
    if let Ok(dir) = std::env::var("VERIF_SCRATCH") {
        return dir;
    }
    let probe = format!("/dev/shm/.iggy-sim-probe-{}", std::process::id());
    if std::fs::create_dir(&probe).is_ok() {
        let _ = std::fs::remove_dir(&probe);
        return "/dev/shm".into();
    }
    std::env::temp_dir().to_string_lossy().to_string()
}

pub fn scratch_dir(seed: u64) -> PathBuf {
    PathBuf::from(format!("{}/iggy-sim-{}-{}", scratch_base(), std::process::id(), seed))
}

fn opts_for(case: &Case) -> Opts {
    let mut props: BTreeSet<&'static str> = crate::profiles::ALL_PROPS.iter().copied().filter(|p| *p == case.prop).collect();
    if std::env::var("VERIF_ALL_PROPS").is_ok() {
        props.insert("*");
    }
    Opts {
        settle_each: case.settle_each,
        check_timestamps: true,
        props,
        check_size_limit: case.prop == "C15",
        message_cache: case.knobs.cache_enabled,
        encryption: case.knobs.encryption,
        http_arm: case.http_arm,
        disk_faults: case.disk_fault_rate > 0.0,
    }
}

pub fn run_case(case: &Case) -> RunOutput {
    match case.prop.as_str() {
        "C04" => crate::crash::run_crash(case),
        "C12" => crate::conc::run_conc(case),
        "C11" => crate::jrnl::run_jrnl(case),
        "C20" => crate::sdk::run_sdk(case),
        _ => run_sequential(case),
    }
}

/// Sequential families: one main actor issues operations, background work is scheduled by seed.
pub fn run_sequential(case: &Case) -> RunOutput {
    let dir = scratch_dir(case.seed);
    let _ = std::fs::remove_dir_all(&dir);
    std::fs::create_dir_all(&dir).expect("scratch dir");
    crate::determinism::reset_hash_seeds();
    let sim = Sim::new(case.sim_config());
    let world = World::new(sim.clone(), dir.clone(), case.knobs.clone());
    world.http_enabled.set(case.http_arm);
    let case_owned = case.clone();
    let w = world.clone();
    let result = sim.block_on(async move {
        let case = case_owned;
        let mut recorded: Vec<Op> = Vec::new();
        let mut h = Harness::new(w.clone(), opts_for(&case), case.gen.clients.max(1));
        if let Err(e) = w.start().await {
            return (h, recorded, Some(format!("first start failed: {e:?}")));
        }
        for c in 0..case.gen.clients.max(1) {
            if let Err(e) = h.connect_client(c, true).await {
                return (h, recorded, Some(format!("client {c} cannot connect: {e:?}")));
            }
        }
        for op in &case.setup {
            h.step(op).await;
        }
        if case.journal_fault_rate > 0.0 {
            let mut fs = w.sim.inner.fs.borrow_mut();
            fs.random_rate = case.journal_fault_rate;
            fs.random_classes = vec![crate::rt::PathClass::StateLog];
            fs.armed = true;
            h.journal_faults = true;
        }
        if case.disk_fault_rate > 0.0 {
            let mut fs = w.sim.inner.fs.borrow_mut();
            fs.random_rate = case.disk_fault_rate;
            fs.random_classes = vec![crate::rt::PathClass::Log, crate::rt::PathClass::Index];
            fs.armed = false;
        }
        if case.ops.is_empty() {
            let mut gen = Gen::new(case.seed, case.gen.clone());
            for _ in 0..case.gen.ops {
                if h.fatal {
                    break;
                }
                let op = gen.next(&h.model);
                recorded.push(op.clone());
                h.step(&op).await;
            }
            w.sim.arm_faults(false);
            for op in crate::profiles::closing_ops(&case.prop) {
                if h.fatal {
                    break;
                }
                recorded.push(op.clone());
                h.step(&op).await;
            }
        } else {
            for op in &case.ops {
                if h.fatal {
                    break;
                }
                recorded.push(op.clone());
                h.step(op).await;
            }
        }
        // every actor of the server must be able to stop: drop clients, graceful stop
        for c in 0..h.clients.len() {
            h.clients[c] = None;
        }
        let _ = w.stop(crate::world::StopKind::GracefulDrained).await;
        let panic_prop: &'static str = crate::profiles::ALL_PROPS.iter().copied().find(|p| *p == case.prop).unwrap_or("C06");
        h.check_panics(panic_prop);
        (h, recorded, None)
    });
    let mut out = RunOutput { seed: case.seed, prop: case.prop.clone(), ..Default::default() };
    out.steps = sim.steps();
    out.trace_hash = format!("{:016x}", sim.trace_hash());
    out.sim_micros = sim.inner.cfg.epoch_micros; // replaced below
    out.multi_choice_steps = sim.inner.multi_choice_steps.get();
    if sim.inner.deferred_writes.get() > 0 {
        out.extra.insert("file_writes_completed_later".into(), sim.inner.deferred_writes.get());
    }
    out.max_runnable = sim.inner.max_runnable.get();
    out.yields = sim.inner.yields.get();
    out.connections = sim.inner.connections.get();
    {
        let fs = sim.inner.fs.borrow();
        out.faults_fired = fs.fired.iter().map(|f| format!("{:?}:{:?}#{}:{:?}", f.0, f.1, f.2, f.3)).collect();
        out.fs_ops = fs.op_counts.iter().map(|(k, v)| (k.to_string(), *v)).collect();
        out.fs_mutations = fs.log.len();
    }
    match result {
        Ok((h, recorded, error)) => {
            out.sim_micros = h.sim.inner.final_sim_micros.get();
            out.violations = h.violations;
            out.stats = h.stats;
            out.ops = recorded;
            out.distinct_states = h.state_hashes.len();
            out.state_hashes = h.state_hashes.into_iter().collect();
            out.harness_error = error;
        }
        Err(SimStop::Budget) => {
            out.violations.push(Violation { prop: leak(&case.prop), oracle: "bounded_liveness", tag: "step_budget_exhausted".into(), detail: format!("the run did not finish within {} scheduler steps", sim.inner.cfg.step_budget), op_index: 0 });
        }
        Err(SimStop::Escaped(what)) => out.harness_error = Some(format!("simulation escaped: {what}")),
        Err(SimStop::MainPanicked(message)) => main_panicked(&case.prop, &message, &mut out),
    }
    out.nontrivial = nontrivial(&case.prop, &out);
    out.shape = shape_of(case, &out);
    let _ = std::fs::remove_dir_all(&dir);
    out
}

/// The scenario's own actor panicked. A panic raised inside the harness sources is a harness error (exit 2,
/// no verdict). Anything else is code under test running on the client side of an exchange (the SDK decoding
/// a response, building a request): for the properties about the client (C13, C20) that is a violation; for
/// the others the run ends without a verdict and is counted.
pub fn main_panicked(prop: &str, message: &str, out: &mut RunOutput) {
    let location = message.rsplit(" @ ").next().unwrap_or("");
    if location.contains("/verif/sim/") || location.starts_with("src/") {
        out.harness_error = Some(format!("the scenario panicked: {message}"));
    } else if prop == "C13" || prop == "C20" {
        let tag = crate::harness::panic_tag(message);
        out.violations.push(Violation { prop: leak(prop), oracle: "client_never_panics", tag, detail: format!("client-side code panicked during an exchange: {}", message.chars().take(300).collect::<String>()), op_index: 0 });
    } else {
        *out.stats.probes.entry("run_ended_by_client_side_panic").or_insert(0) += 1;
    }
}

fn leak(s: &str) -> &'static str {
    crate::profiles::ALL_PROPS.iter().copied().find(|p| *p == s).unwrap_or("C00")
}

/// Did this run contain the property's trigger at all?
fn nontrivial(prop: &str, out: &RunOutput) -> bool {
    let ok = |k: &str| out.stats.ops_ok.get(k).copied().unwrap_or(0);
    let n = |k: &str| out.stats.ops.get(k).copied().unwrap_or(0);
    match prop {
        "C01" => ok("send") >= 3,
        "C02" => ok("send") >= 2 && out.stats.polls_compared >= 5,
        "C03" => out.stats.restarts >= 1 && ok("send") >= 1,
        "C16" => ok("send") >= 1 && out.stats.audits >= 1,
        "C05" => out.stats.restarts >= 1 && (ok("create_stream") + ok("create_topic") + ok("create_group") + ok("create_user")) >= 3,
        "C06" => (ok("create_stream") + ok("create_topic") + ok("create_group") + ok("delete_stream") + ok("delete_topic") + ok("update_topic") + ok("update_stream")) >= 5,
        "C08" => ok("join_group") >= 2 && out.stats.probes.get("group_assignment_checked").copied().unwrap_or(0) >= 2,
        "C09" => out.stats.probes.get("ungranted_request_refused").copied().unwrap_or(0) + out.stats.probes.get("granted_request_served").copied().unwrap_or(0) >= 3,
        "C10" => ok("login") + ok("login_pat") >= 1 && out.stats.probes.get("invalid_login_refused").copied().unwrap_or(0) + out.stats.probes.get("invalid_token_refused").copied().unwrap_or(0) >= 1,
        "C13" => n("garbage") >= 1 && (ok("create_topic") + ok("create_stream") + ok("send") + ok("create_user")) >= 4,
        "C19" => ok("send") >= 2 && out.stats.audits >= 1 && out.stats.probes.get("files_scanned_for_secrets").copied().unwrap_or(0) >= 1,
        "C14" => ok("send") >= 2 && n("job_maintain") >= 1 && n("jump") >= 1,
        "C15" => ok("send") >= 2 && n("send") >= 4,
        "C17" => ok("send") >= 4,
        "C18" => ok("send") >= 3,
        "C07" => ok("store_offset") >= 1 && ok("get_offset") >= 1,
        _ => n("send") + n("poll") >= 1 || out.steps > 100,
    }
}

/// A coarse signature of what the run did: configuration class + operation-kind multiset buckets.
fn shape_of(case: &Case, out: &RunOutput) -> String {
    let k = &case.knobs;
    let mut s = format!(
        "save{}-seg{}-cache{}-idx{}-fs{}-nw{}-dd{}-enc{}|{}|y{}|",
        k.messages_required_to_save, k.segment_size, if k.cache_enabled { k.cache_size } else { 0 }, k.cache_indexes as u8, k.partition_fsync as u8, k.no_wait as u8, k.dedup as u8, k.encryption as u8, case.policy, case.yield_prob
    );
    for (name, count) in &out.stats.ops {
        let bucket = match *count {
            0 => 0,
            1 => 1,
            2..=4 => 2,
            5..=15 => 3,
            _ => 4,
        };
        s.push_str(&format!("{name}{bucket},"));
    }
    s
}
