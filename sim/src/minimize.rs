//! Delta debugging of a failing run: operations first, then schedule/configuration simplification.
//! A candidate is kept only if the same (property, oracle, tag) violation recurs.

use crate::gen::Case;
use crate::scen::run_case;
use crate::world::Knobs;
use std::time::{Duration, Instant};

fn fails(case: &Case, oracle: &str, tag: &str) -> Option<usize> {
    let out = run_case(case);
    out.violations.iter().find(|v| v.prop == case.prop && v.oracle == oracle && v.tag == tag).map(|v| v.op_index)
}

pub fn minimize(prop: &str, seed: u64, oracle: &str, tag: &str, out_path: &str) -> bool {
    let started = Instant::now();
    let limit = Duration::from_secs(std::env::var("VERIF_MINIMIZE_SECS").ok().and_then(|s| s.parse().ok()).unwrap_or(90));
    let mut case = crate::profiles::make_case(prop, seed);
    let out = run_case(&case);
    let Some(v) = out.violations.iter().find(|v| v.prop == prop && v.oracle == oracle && v.tag == tag) else {
        eprintln!("minimize: seed {seed} does not reproduce {oracle}/{tag}");
        return false;
    };
    // operations after the failing one are irrelevant; setup ops are counted in op_index
    let setup = case.setup.len();
    let mut ops = out.ops.clone();
    let cut = (v.op_index + 1).saturating_sub(setup).min(ops.len());
    ops.truncate(cut.max(1));
    case.ops = ops;
    if fails(&case, oracle, tag).is_none() {
        // the recorded list must reproduce; if truncation lost it, fall back to the full list
        case.ops = out.ops.clone();
        if fails(&case, oracle, tag).is_none() {
            eprintln!("minimize: recorded operations of seed {seed} do not reproduce {oracle}/{tag}");
            return false;
        }
    }
    // ddmin over operations
    let mut chunk = (case.ops.len() / 2).max(1);
    let mut runs = 0;
    while chunk >= 1 && started.elapsed() < limit {
        let mut i = 0;
        let mut progressed = false;
        while i < case.ops.len() && started.elapsed() < limit {
            let mut candidate = case.clone();
            let end = (i + chunk).min(candidate.ops.len());
            candidate.ops.drain(i..end);
            if candidate.ops.is_empty() {
                i += chunk;
                continue;
            }
            runs += 1;
            if fails(&candidate, oracle, tag).is_some() {
                case = candidate;
                progressed = true;
            } else {
                i += chunk;
            }
        }
        if chunk == 1 && !progressed {
            break;
        }
        if !progressed {
            chunk /= 2;
        } else if chunk > case.ops.len() {
            chunk = case.ops.len().max(1);
        }
        if chunk == 0 {
            break;
        }
    }
    // shrink send batches
    for i in 0..case.ops.len() {
        if started.elapsed() >= limit {
            break;
        }
        if let crate::ops::Op::Send { msgs, .. } = &case.ops[i] {
            let mut n = msgs.len();
            while n > 1 && started.elapsed() < limit {
                let mut candidate = case.clone();
                if let crate::ops::Op::Send { msgs, .. } = &mut candidate.ops[i] {
                    msgs.truncate(n / 2);
                }
                runs += 1;
                if fails(&candidate, oracle, tag).is_some() {
                    case = candidate;
                    n /= 2;
                } else {
                    break;
                }
            }
        }
    }
    // schedule simplification
    for (policy, yield_prob) in [("fifo", 0.0), ("fifo", case.yield_prob), (case.policy.clone().as_str(), 0.0)] {
        let mut candidate = case.clone();
        candidate.policy = policy.to_string();
        candidate.yield_prob = yield_prob;
        runs += 1;
        if fails(&candidate, oracle, tag).is_some() {
            case = candidate;
            break;
        }
    }
    // configuration: reset to default field by field
    let default = Knobs::default();
    macro_rules! try_field {
        ($f:ident) => {
            if case.knobs.$f != default.$f && started.elapsed() < limit {
                let mut candidate = case.clone();
                candidate.knobs.$f = default.$f.clone();
                runs += 1;
                if fails(&candidate, oracle, tag).is_some() {
                    case = candidate;
                }
            }
        };
    }
    try_field!(cache_enabled);
    try_field!(cache_indexes);
    try_field!(partition_fsync);
    try_field!(state_fsync);
    try_field!(no_wait);
    try_field!(dedup);
    try_field!(dedup_max_entries);
    try_field!(dedup_expiry_micros);
    try_field!(validate_checksum);
    try_field!(messages_required_to_save);
    try_field!(segment_size);
    case.note = format!("minimised from seed {seed}: violation {prop}/{oracle}/{tag}; {} candidate runs; replay with `./check replay <this file>`", runs);
    let text = serde_json::to_string_pretty(&serde_json::json!({"expect": {"property": prop, "oracle": oracle, "tag": tag}, "case": case})).unwrap();
    if std::fs::write(out_path, text).is_err() {
        return false;
    }
    // the replay file must reproduce in a fresh process
    let status = std::process::Command::new(std::env::current_exe().unwrap()).arg("replay").arg(out_path).stdout(std::process::Stdio::null()).stderr(std::process::Stdio::null()).status();
    let reproduced = status.map(|s| s.code() == Some(1)).unwrap_or(false);
    eprintln!("minimize: {prop}/{oracle}/{tag}: {} operations left after {runs} runs; fresh-process replay reproduces: {reproduced}", case.ops.len());
    reproduced
}

/// Runs a replay file; exit code 1 and a VIOLATION line when the expected violation recurs.
pub fn replay(path: &str) -> i32 {
    let Ok(text) = std::fs::read_to_string(path) else {
        eprintln!("cannot read {path}");
        return 2;
    };
    let Ok(v) = serde_json::from_str::<serde_json::Value>(&text) else {
        eprintln!("cannot parse {path}");
        return 2;
    };
    let Ok(case) = serde_json::from_value::<Case>(v["case"].clone()) else {
        eprintln!("no case in {path}");
        return 2;
    };
    // a run that never returns is the violation "the operation never completed"
    {
        let prop = case.prop.clone();
        let path = path.to_string();
        let secs: u64 = std::env::var("VERIF_REPLAY_TIMEOUT").ok().and_then(|s| s.parse().ok()).unwrap_or(60);
        std::thread::spawn(move || {
            std::thread::sleep(Duration::from_secs(secs));
            println!("# the run did not return within {secs}s (synchronous spin or deadlock)");
            println!("VIOLATION property={prop} replay={path}");
            std::process::exit(1);
        });
    }
    let out = run_case(&case);
    let oracle = v["expect"]["oracle"].as_str().unwrap_or("");
    let tag = v["expect"]["tag"].as_str().unwrap_or("");
    for viol in &out.violations {
        println!("# {}/{}/{} at op {}: {}", viol.prop, viol.oracle, viol.tag, viol.op_index, viol.detail);
    }
    println!("# trace_hash={} steps={}", out.trace_hash, out.steps);
    if let Some(e) = &out.harness_error {
        eprintln!("harness error: {e}");
        return 2;
    }
    let hit = out.violations.iter().any(|x| x.prop == case.prop && (oracle.is_empty() || (x.oracle == oracle && x.tag == tag)));
    if hit {
        println!("VIOLATION property={} replay={}", case.prop, path);
        1
    } else {
        0
    }
}
