//! get_stats against the model (C16): exact counts and the sum hierarchy.

use crate::harness::*;
use iggy::client::SystemClient;

pub async fn get_stats(h: &mut Harness, c: usize) {
    let Some(client) = h.clients.get(c).and_then(|x| x.as_ref()) else { return };
    if h.model.sessions[c].user == 0 {
        return;
    }
    let result = client.get_stats().await;
    if !h.perm_gate("get_stats", result.is_ok(), result.as_ref().err()) {
        return;
    }
    let stats = match result {
        Ok(s) => s,
        Err(e) => {
            h.violate("C06", "valid_command_fails", "get_stats", format!("get_stats failed: {e:?}"));
            return;
        }
    };
    *h.stats.ops_ok.entry("get_stats").or_insert(0) += 1;
    let m = &h.model;
    let streams = m.streams.len() as u32;
    let topics: u32 = m.streams.values().map(|s| s.topics.len() as u32).sum();
    let partitions: u32 = m.streams.values().flat_map(|s| s.topics.values()).map(|t| t.partitions.len() as u32).sum();
    let groups: u32 = m.streams.values().flat_map(|s| s.topics.values()).map(|t| t.groups.len() as u32).sum();
    let tainted = m.streams.values().flat_map(|s| s.topics.values()).any(crate::harness_cat::topic_tainted);
    let messages: u64 = m.streams.values().flat_map(|s| s.topics.values()).map(crate::harness_cat::topic_messages).sum();
    let mut problems: Vec<(&'static str, String)> = Vec::new();
    if stats.streams_count != streams {
        problems.push(("streams_count", format!("streams {} vs {}", stats.streams_count, streams)));
    }
    if stats.topics_count != topics {
        problems.push(("topics_count", format!("topics {} vs {}", stats.topics_count, topics)));
    }
    if stats.partitions_count != partitions {
        problems.push(("partitions_count", format!("partitions {} vs {}", stats.partitions_count, partitions)));
    }
    if stats.consumer_groups_count != groups {
        problems.push(("consumer_groups_count", format!("consumer groups {} vs {}", stats.consumer_groups_count, groups)));
    }
    if !tainted && stats.messages_count != messages {
        problems.push(("messages_count", format!("messages {} vs {} retained", stats.messages_count, messages)));
    }
    // segments: cross-checked with the directory listing
    let segment_files = count_log_files(&h.world.data_path());
    if stats.segments_count as usize != segment_files {
        problems.push(("segments_count", format!("segments {} vs {} .log files on disk", stats.segments_count, segment_files)));
    }
    for (tag, detail) in problems {
        h.violate("C16", "stats_exact", tag, format!("get_stats: {detail}"));
    }
}

fn count_log_files(root: &str) -> usize {
    let mut n = 0;
    let mut stack = vec![std::path::PathBuf::from(root).join("streams")];
    while let Some(dir) = stack.pop() {
        let Ok(rd) = std::fs::read_dir(&dir) else { continue };
        for e in rd.flatten() {
            let p = e.path();
            if p.is_dir() {
                stack.push(p);
            } else if p.extension().map(|x| x == "log").unwrap_or(false) {
                n += 1;
            }
        }
    }
    n
}
