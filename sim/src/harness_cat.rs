//! Catalogue operations (streams, topics, partitions, consumer groups) against the sequential-map model.

use crate::harness::*;
use crate::model::*;
use crate::ops::*;
use crate::world::Job;
use iggy::client::*;
use iggy::error::IggyError;
use iggy::models::messages::PolledMessages;
use std::collections::BTreeMap;

fn ready(h: &Harness, c: usize) -> bool {
    h.model.sessions.get(c).map(|s| s.connected && s.user != 0).unwrap_or(false) && h.clients.get(c).map(|x| x.is_some()).unwrap_or(false)
}

fn name_ok(name: &str) -> bool {
    !name.is_empty() && name.len() <= 255
}

pub async fn step_cat(h: &mut Harness, op: &Op) {
    match op {
        Op::CreateStream { c, id, name } => create_stream(h, *c, *id, name).await,
        Op::UpdateStream { c, stream, name } => update_stream(h, *c, stream, name).await,
        Op::DeleteStream { c, stream } => delete_stream(h, *c, stream).await,
        Op::PurgeStream { c, stream } => purge_stream(h, *c, stream).await,
        Op::CreateTopic { c, stream, id, name, partitions, expiry, max_size, replication, compression } => {
            create_topic(h, *c, stream, *id, name, *partitions, expiry, max_size, *replication, *compression).await
        }
        Op::UpdateTopic { c, stream, topic, name, expiry, max_size, replication, compression } => {
            update_topic(h, *c, stream, topic, name, expiry, max_size, *replication, *compression).await
        }
        Op::DeleteTopic { c, stream, topic } => delete_topic(h, *c, stream, topic).await,
        Op::PurgeTopic { c, stream, topic } => purge_topic(h, *c, stream, topic).await,
        Op::CreatePartitions { c, stream, topic, count } => create_partitions(h, *c, stream, topic, *count).await,
        Op::DeletePartitions { c, stream, topic, count } => delete_partitions(h, *c, stream, topic, *count).await,
        Op::GetStreams { c } => {
            if ready(h, *c) {
                check_streams_listing(h, *c).await
            }
        }
        Op::GetStream { c, stream } => {
            if ready(h, *c) {
                check_stream(h, *c, stream).await
            }
        }
        Op::GetTopics { c, stream } => {
            if ready(h, *c) {
                check_topics_listing(h, *c, stream).await
            }
        }
        Op::GetTopic { c, stream, topic } => {
            if ready(h, *c) {
                check_topic(h, *c, stream, topic).await
            }
        }
        other => crate::harness_grp::step_grp(h, other).await,
    }
}

fn report_unexpected(h: &mut Harness, what: &str, expect_ok: bool, result_ok: bool, err: Option<&IggyError>) {
    if expect_ok && !result_ok {
        h.violate("C06", "valid_command_fails", format!("{what}:{}", err.map(|e| e.as_string()).unwrap_or_default()), format!("valid {what} failed: {err:?}"));
    } else if !expect_ok && result_ok {
        h.violate("C06", "invalid_command_refused", what.to_string(), format!("invalid {what} was accepted"));
    }
}

async fn create_stream(h: &mut Harness, c: usize, id: Option<u32>, name: &str) {
    if !ready(h, c) {
        return;
    }
    let now = h.sim.now_micros();
    let result = crate::routed!(h, c, create_stream(name, id));
    if !h.perm_gate("create_stream", result.is_ok(), result.as_ref().err()) {
        return;
    }
    let name_taken = h.model.streams.values().any(|s| s.name == name);
    let id_taken = id.map(|i| h.model.streams.contains_key(&i)).unwrap_or(false);
    let expect_ok = name_ok(name) && id != Some(0) && !name_taken && !id_taken;
    report_unexpected(h, "create_stream", expect_ok, result.is_ok(), result.as_ref().err());
    if let Ok(details) = result {
        *h.stats.ops_ok.entry("create_stream").or_insert(0) += 1;
        if let Some(i) = id {
            if details.id != i {
                h.violate("C06", "create_returns_requested_id", "stream", format!("asked stream id {i}, got {}", details.id));
            }
        }
        if h.model.streams.contains_key(&details.id) {
            h.violate("C06", "ids_unique", "stream_id_reused", format!("new stream got id {} of a live stream", details.id));
            return;
        }
        if details.name != name || details.topics_count != 0 || details.messages_count != 0 {
            h.violate("C13", "response_fields", "create_stream", format!("create_stream response {details:?} for name {name}"));
        }
        h.journalled_names.push(name.to_string());
        h.model.streams.insert(details.id, MStream { id: details.id, name: name.to_string(), topics: BTreeMap::new(), created_at: Some(details.created_at.as_micros()) });
        let _ = now;
    }
}

async fn update_stream(h: &mut Harness, c: usize, stream: &IdRef, name: &str) {
    if !ready(h, c) {
        return;
    }
    let result = crate::routed!(h, c, update_stream(&stream.to_identifier(), name));
    if !h.perm_gate("update_stream", result.is_ok(), result.as_ref().err()) {
        return;
    }
    let sid = h.model.stream_id(stream);
    let name_taken_by_other = h.model.streams.values().any(|s| s.name == name && Some(s.id) != sid);
    let expect_ok = sid.is_some() && name_ok(name) && !name_taken_by_other;
    report_unexpected(h, "update_stream", expect_ok, result.is_ok(), result.as_ref().err());
    if result.is_ok() {
        if let Some(sid) = sid {
            h.model.streams.get_mut(&sid).unwrap().name = name.to_string();
            *h.stats.ops_ok.entry("update_stream").or_insert(0) += 1;
        }
    }
}

async fn delete_stream(h: &mut Harness, c: usize, stream: &IdRef) {
    if !ready(h, c) {
        return;
    }
    let result = crate::routed!(h, c, delete_stream(&stream.to_identifier()));
    if !h.perm_gate("delete_stream", result.is_ok(), result.as_ref().err()) {
        return;
    }
    let sid = h.model.stream_id(stream);
    report_unexpected(h, "delete_stream", sid.is_some(), result.is_ok(), result.as_ref().err());
    if result.is_ok() {
        if let Some(sid) = sid {
            h.model.streams.remove(&sid);
            h.key_affinity.retain(|k, _| k.0 != sid);
            *h.stats.ops_ok.entry("delete_stream").or_insert(0) += 1;
        }
    }
}

pub fn purge_partition_model(p: &mut MPartition) {
    p.msgs.clear();
    p.first_retained = 0;
    p.consumer_offsets.clear();
    p.group_offsets.clear();
    let forgotten = std::mem::take(&mut p.dedup_ids);
    p.purged_ids.extend(forgotten);
    p.tainted = false;
}

async fn purge_stream(h: &mut Harness, c: usize, stream: &IdRef) {
    if !ready(h, c) {
        return;
    }
    let result = crate::routed!(h, c, purge_stream(&stream.to_identifier()));
    if !h.perm_gate("purge_stream", result.is_ok(), result.as_ref().err()) {
        return;
    }
    let sid = h.model.stream_id(stream);
    report_unexpected(h, "purge_stream", sid.is_some(), result.is_ok(), result.as_ref().err());
    if result.is_ok() {
        if let Some(sid) = sid {
            for t in h.model.streams.get_mut(&sid).unwrap().topics.values_mut() {
                for p in t.partitions.values_mut() {
                    purge_partition_model(p);
                }
            }
            *h.stats.ops_ok.entry("purge_stream").or_insert(0) += 1;
        }
    }
}

#[allow(clippy::too_many_arguments)]
async fn create_topic(h: &mut Harness, c: usize, stream: &IdRef, id: Option<u32>, name: &str, partitions: u32, expiry: &Expiry, max_size: &MaxSize, replication: Option<u8>, compression: u8) {
    if !ready(h, c) {
        return;
    }
    let result = crate::routed!(h, c, create_topic(&stream.to_identifier(), name, partitions, compression_of(compression), replication, id, expiry_to_sdk(expiry), max_size_to_sdk(max_size)));
    if !h.perm_gate("create_topic", result.is_ok(), result.as_ref().err()) {
        return;
    }
    let sid = h.model.stream_id(stream);
    let size = h.model.effective_max_size(max_size);
    if size.is_err() {
        match &result {
            Ok(_) => h.violate("C15", "limit_below_segment_rejected", "create_accepted", format!("topic created with max size {max_size:?} below the segment size {}", h.model.segment_size)),
            Err(_) => h.stats.probe("limit_below_segment_rejected"),
        }
    }
    let (name_taken, id_taken) = match sid.and_then(|s| h.model.streams.get(&s)) {
        Some(s) => (s.topics.values().any(|t| t.name == name), id.map(|i| s.topics.contains_key(&i)).unwrap_or(false)),
        None => (false, false),
    };
    let expect_ok = sid.is_some() && name_ok(name) && id != Some(0) && partitions <= 1000 && replication != Some(0) && size.is_ok() && !name_taken && !id_taken;
    report_unexpected(h, "create_topic", expect_ok, result.is_ok(), result.as_ref().err());
    if let (Ok(details), Some(sid)) = (result, sid) {
        *h.stats.ops_ok.entry("create_topic").or_insert(0) += 1;
        if let Some(i) = id {
            if details.id != i {
                h.violate("C06", "create_returns_requested_id", "topic", format!("asked topic id {i}, got {}", details.id));
            }
        }
        if h.model.streams[&sid].topics.contains_key(&details.id) {
            h.violate("C06", "ids_unique", "topic_id_reused", format!("new topic got id {} of a live topic", details.id));
            return;
        }
        let expiry_micros = h.model.effective_expiry(expiry);
        let topic = MTopic {
            id: details.id,
            name: name.to_string(),
            partitions: (1..=partitions).map(|p| (p, MPartition { id: p, ..Default::default() })).collect(),
            expiry_micros,
            max_size: size.unwrap_or(None),
            compression,
            replication: replication.unwrap_or(1),
            groups: BTreeMap::new(),
            created_at: Some(details.created_at.as_micros()),
            balanced_history: Vec::new(),
        };
        h.journalled_names.push(name.to_string());
        compare_topic_details(h, sid, &topic, &details, "create_topic_response");
        h.model.streams.get_mut(&sid).unwrap().topics.insert(details.id, topic);
    }
}

#[allow(clippy::too_many_arguments)]
async fn update_topic(h: &mut Harness, c: usize, stream: &IdRef, topic: &IdRef, name: &str, expiry: &Expiry, max_size: &MaxSize, replication: Option<u8>, compression: u8) {
    if !ready(h, c) {
        return;
    }
    let result = crate::routed!(h, c, update_topic(&stream.to_identifier(), &topic.to_identifier(), name, compression_of(compression), replication, expiry_to_sdk(expiry), max_size_to_sdk(max_size)));
    if !h.perm_gate("update_topic", result.is_ok(), result.as_ref().err()) {
        return;
    }
    let ids = h.model.topic_ids(stream, topic);
    let size = h.model.effective_max_size(max_size);
    if size.is_err() && ids.is_some() {
        match &result {
            Ok(_) => h.violate("C15", "limit_below_segment_rejected", "update_accepted", format!("topic updated to max size {max_size:?} below the segment size {}", h.model.segment_size)),
            Err(_) => h.stats.probe("limit_below_segment_rejected"),
        }
    }
    let name_taken_by_other = match ids {
        Some((sid, tid)) => h.model.streams[&sid].topics.values().any(|t| t.name == name && t.id != tid),
        None => false,
    };
    let expect_ok = ids.is_some() && name_ok(name) && replication != Some(0) && size.is_ok() && !name_taken_by_other;
    report_unexpected(h, "update_topic", expect_ok, result.is_ok(), result.as_ref().err());
    if result.is_ok() {
        if let Some((sid, tid)) = ids {
            let expiry_micros = h.model.effective_expiry(expiry);
            let t = h.model.streams.get_mut(&sid).unwrap().topics.get_mut(&tid).unwrap();
            t.name = name.to_string();
            t.expiry_micros = expiry_micros;
            if let Ok(size) = size {
                t.max_size = size;
            }
            t.compression = compression;
            t.replication = replication.unwrap_or(1);
            *h.stats.ops_ok.entry("update_topic").or_insert(0) += 1;
        }
    }
}

async fn delete_topic(h: &mut Harness, c: usize, stream: &IdRef, topic: &IdRef) {
    if !ready(h, c) {
        return;
    }
    let result = crate::routed!(h, c, delete_topic(&stream.to_identifier(), &topic.to_identifier()));
    if !h.perm_gate("delete_topic", result.is_ok(), result.as_ref().err()) {
        return;
    }
    let ids = h.model.topic_ids(stream, topic);
    report_unexpected(h, "delete_topic", ids.is_some(), result.is_ok(), result.as_ref().err());
    if result.is_ok() {
        if let Some((sid, tid)) = ids {
            h.model.streams.get_mut(&sid).unwrap().topics.remove(&tid);
            h.key_affinity.retain(|k, _| !(k.0 == sid && k.1 == tid));
            *h.stats.ops_ok.entry("delete_topic").or_insert(0) += 1;
        }
    }
}

async fn purge_topic(h: &mut Harness, c: usize, stream: &IdRef, topic: &IdRef) {
    if !ready(h, c) {
        return;
    }
    let result = crate::routed!(h, c, purge_topic(&stream.to_identifier(), &topic.to_identifier()));
    if !h.perm_gate("purge_topic", result.is_ok(), result.as_ref().err()) {
        return;
    }
    let ids = h.model.topic_ids(stream, topic);
    report_unexpected(h, "purge_topic", ids.is_some(), result.is_ok(), result.as_ref().err());
    if result.is_ok() {
        if let Some((sid, tid)) = ids {
            for p in h.model.streams.get_mut(&sid).unwrap().topics.get_mut(&tid).unwrap().partitions.values_mut() {
                purge_partition_model(p);
            }
            *h.stats.ops_ok.entry("purge_topic").or_insert(0) += 1;
        }
    }
}

async fn create_partitions(h: &mut Harness, c: usize, stream: &IdRef, topic: &IdRef, count: u32) {
    if !ready(h, c) {
        return;
    }
    let result = crate::routed!(h, c, create_partitions(&stream.to_identifier(), &topic.to_identifier(), count));
    if !h.perm_gate("create_partitions", result.is_ok(), result.as_ref().err()) {
        return;
    }
    let ids = h.model.topic_ids(stream, topic);
    let expect_ok = ids.is_some() && (1..=1000).contains(&count);
    report_unexpected(h, "create_partitions", expect_ok, result.is_ok(), result.as_ref().err());
    if result.is_ok() {
        if let Some((sid, tid)) = ids {
            let t = h.model.streams.get_mut(&sid).unwrap().topics.get_mut(&tid).unwrap();
            let n = t.partitions.len() as u32;
            for p in n + 1..=n + count {
                t.partitions.insert(p, MPartition { id: p, ..Default::default() });
            }
            t.balanced_history.clear();
            h.rotation.clear();
            *h.stats.ops_ok.entry("create_partitions").or_insert(0) += 1;
            crate::harness_grp::check_groups_of_topic(h, c, sid, tid).await;
        }
    }
}

async fn delete_partitions(h: &mut Harness, c: usize, stream: &IdRef, topic: &IdRef, count: u32) {
    if !ready(h, c) {
        return;
    }
    let result = crate::routed!(h, c, delete_partitions(&stream.to_identifier(), &topic.to_identifier(), count));
    if !h.perm_gate("delete_partitions", result.is_ok(), result.as_ref().err()) {
        return;
    }
    let ids = h.model.topic_ids(stream, topic);
    let expect_ok = ids.is_some() && (1..=1000).contains(&count);
    report_unexpected(h, "delete_partitions", expect_ok, result.is_ok(), result.as_ref().err());
    if result.is_ok() {
        if let Some((sid, tid)) = ids {
            let t = h.model.streams.get_mut(&sid).unwrap().topics.get_mut(&tid).unwrap();
            let n = t.partitions.len() as u32;
            let remove = count.min(n);
            for p in n - remove + 1..=n {
                t.partitions.remove(&p);
            }
            t.balanced_history.clear();
            h.rotation.clear();
            *h.stats.ops_ok.entry("delete_partitions").or_insert(0) += 1;
            crate::harness_grp::check_groups_of_topic(h, c, sid, tid).await;
        }
    }
}

// ------------------------------------------------------------------------------------------------
// queries
// ------------------------------------------------------------------------------------------------

pub fn topic_messages(t: &MTopic) -> u64 {
    t.partitions.values().map(|p| p.retained_count()).sum()
}

pub fn topic_tainted(t: &MTopic) -> bool {
    t.partitions.values().any(|p| p.tainted)
}

fn compare_topic_details(h: &mut Harness, sid: u32, t: &MTopic, d: &iggy::models::topic::TopicDetails, site: &'static str) {
    let mut problems = Vec::new();
    if d.id != t.id || d.name != t.name {
        problems.push(format!("identity {}:{} vs model {}:{}", d.id, d.name, t.id, t.name));
    }
    if d.partitions_count != t.partitions.len() as u32 || d.partitions.len() != t.partitions.len() {
        problems.push(format!("partitions {}/{} vs model {}", d.partitions_count, d.partitions.len(), t.partitions.len()));
    }
    if expiry_of(&d.message_expiry) != t.expiry_micros {
        problems.push(format!("expiry {:?} vs model {}", d.message_expiry, t.expiry_micros));
    }
    if max_size_of(&d.max_topic_size) != t.max_size {
        problems.push(format!("max size {:?} vs model {:?}", d.max_topic_size, t.max_size));
    }
    if d.replication_factor != t.replication {
        problems.push(format!("replication {} vs model {}", d.replication_factor, t.replication));
    }
    if (d.compression_algorithm == iggy::compression::compression_algorithm::CompressionAlgorithm::Gzip) != (t.compression == 2) {
        problems.push(format!("compression {:?} vs model {}", d.compression_algorithm, t.compression));
    }
    let mut ids: Vec<u32> = d.partitions.iter().map(|p| p.id).collect();
    ids.sort();
    let want: Vec<u32> = t.partitions.keys().copied().collect();
    if ids != want {
        problems.push(format!("partition ids {ids:?} vs model {want:?}"));
    }
    for p in problems {
        h.violate("C06", "get_equals_model", format!("topic:{site}"), format!("{site}: topic {sid}/{}: {p}", t.id));
    }
    if topic_tainted(t) {
        return;
    }
    // C16: counts and the sum hierarchy
    let model_messages = topic_messages(t);
    if d.messages_count != model_messages {
        h.violate("C16", "topic_message_count", if d.messages_count > model_messages { "over" } else { "under" }, format!("{site}: topic {sid}/{} reports {} messages, {} are retained", t.id, d.messages_count, model_messages));
    }
    let sum_messages: u64 = d.partitions.iter().map(|p| p.messages_count).sum();
    let sum_size: u64 = d.partitions.iter().map(|p| p.size.as_bytes_u64()).sum();
    if sum_messages != d.messages_count {
        h.violate("C16", "topic_is_sum_of_partitions", "messages", format!("{site}: topic {sid}/{} messages {} != sum over partitions {}", t.id, d.messages_count, sum_messages));
    }
    if sum_size != d.size.as_bytes_u64() {
        h.violate("C16", "topic_is_sum_of_partitions", "size", format!("{site}: topic {sid}/{} size {} != sum over partitions {}", t.id, d.size.as_bytes_u64(), sum_size));
    }
    for p in &d.partitions {
        if let Some(pm) = t.partitions.get(&p.id) {
            if p.messages_count != pm.retained_count() {
                h.violate("C16", "partition_message_count", if p.messages_count > pm.retained_count() { "over" } else { "under" }, format!("{site}: partition {sid}/{}/{} reports {} messages, {} are retained", t.id, p.id, p.messages_count, pm.retained_count()));
            }
            if p.current_offset != pm.current_offset() {
                h.violate("C01", "current_offset", "get_topic", format!("{site}: partition {sid}/{}/{} reports current offset {}, model {}", t.id, p.id, p.current_offset, pm.current_offset()));
            }
            if pm.retained_count() == 0 && pm.msgs.is_empty() && p.size.as_bytes_u64() != 0 {
                h.violate("C16", "empty_partition_size_zero", "size", format!("{site}: empty partition {sid}/{}/{} reports size {}", t.id, p.id, p.size.as_bytes_u64()));
            }
        }
    }
}

pub async fn check_topic(h: &mut Harness, c: usize, stream: &IdRef, topic: &IdRef) {
    let result = crate::routed!(h, c, get_topic(&stream.to_identifier(), &topic.to_identifier()));
    if !h.perm_gate_found("get_topic", matches!(result, Ok(Some(_))), result.is_ok(), result.as_ref().err()) {
        return;
    }
    let ids = h.model.topic_ids(stream, topic);
    match (result, ids) {
        (Ok(Some(d)), Some((sid, tid))) => {
            let t = h.model.streams[&sid].topics[&tid].clone();
            compare_topic_details(h, sid, &t, &d, "get_topic");
            *h.stats.ops_ok.entry("get_topic").or_insert(0) += 1;
        }
        (Ok(None), None) | (Err(_), None) => {}
        (Ok(Some(d)), None) => h.violate("C06", "get_equals_model", "phantom_topic", format!("get_topic {stream:?}/{topic:?} returned {}:{} which the model does not have", d.id, d.name)),
        (Ok(None), Some(ids)) => h.violate("C06", "get_equals_model", "topic_missing", format!("get_topic {stream:?}/{topic:?} found nothing, model has {ids:?}")),
        (Err(e), Some(ids)) => h.violate("C06", "get_equals_model", "topic_error", format!("get_topic {stream:?}/{topic:?} failed ({e:?}), model has {ids:?}")),
    }
}

pub async fn check_topics_listing(h: &mut Harness, c: usize, stream: &IdRef) {
    let result = crate::routed!(h, c, get_topics(&stream.to_identifier()));
    if !h.perm_gate("get_topics", result.is_ok(), result.as_ref().err()) {
        return;
    }
    let sid = h.model.stream_id(stream);
    match (result, sid) {
        (Ok(list), Some(sid)) => {
            let mut got: Vec<(u32, String, u32, u64)> = list.iter().map(|t| (t.id, t.name.clone(), t.partitions_count, t.messages_count)).collect();
            got.sort();
            let s = &h.model.streams[&sid];
            let tainted = s.topics.values().any(topic_tainted);
            let want: Vec<(u32, String, u32, u64)> = s.topics.values().map(|t| (t.id, t.name.clone(), t.partitions.len() as u32, topic_messages(t))).collect();
            let strip = |v: &Vec<(u32, String, u32, u64)>| v.iter().map(|x| (x.0, x.1.clone(), x.2)).collect::<Vec<_>>();
            if strip(&got) != strip(&want) {
                h.violate("C06", "get_equals_model", "topics_listing", format!("get_topics of stream {sid}: {:?} vs model {:?}", strip(&got), strip(&want)));
            } else if !tainted && got != want {
                h.violate("C16", "topic_message_count", "listing", format!("get_topics of stream {sid}: {got:?} vs model {want:?}"));
            }
        }
        (Ok(list), None) if !list.is_empty() => h.violate("C06", "get_equals_model", "phantom_stream", format!("get_topics of unknown stream {stream:?} returned {} topics", list.len())),
        (Err(e), Some(sid)) => h.violate("C06", "get_equals_model", "topics_error", format!("get_topics of stream {sid} failed: {e:?}")),
        _ => {}
    }
}

pub async fn check_stream(h: &mut Harness, c: usize, stream: &IdRef) {
    let result = crate::routed!(h, c, get_stream(&stream.to_identifier()));
    if !h.perm_gate_found("get_stream", matches!(result, Ok(Some(_))), result.is_ok(), result.as_ref().err()) {
        return;
    }
    let sid = h.model.stream_id(stream);
    match (result, sid) {
        (Ok(Some(d)), Some(sid)) => {
            let s = h.model.streams[&sid].clone();
            if d.id != s.id || d.name != s.name || d.topics_count != s.topics.len() as u32 || d.topics.len() != s.topics.len() {
                h.violate("C06", "get_equals_model", "stream", format!("get_stream: {}:{} topics {} vs model {}:{} topics {}", d.id, d.name, d.topics_count, s.id, s.name, s.topics.len()));
            }
            let mut ids: Vec<(u32, String)> = d.topics.iter().map(|t| (t.id, t.name.clone())).collect();
            ids.sort();
            let want: Vec<(u32, String)> = s.topics.values().map(|t| (t.id, t.name.clone())).collect();
            if ids != want {
                h.violate("C06", "get_equals_model", "stream_topics", format!("get_stream {sid}: topics {ids:?} vs model {want:?}"));
            }
            if !s.topics.values().any(topic_tainted) {
                let model_messages: u64 = s.topics.values().map(topic_messages).sum();
                if d.messages_count != model_messages {
                    h.violate("C16", "stream_message_count", if d.messages_count > model_messages { "over" } else { "under" }, format!("stream {sid} reports {} messages, {} are retained", d.messages_count, model_messages));
                }
                let sum_messages: u64 = d.topics.iter().map(|t| t.messages_count).sum();
                let sum_size: u64 = d.topics.iter().map(|t| t.size.as_bytes_u64()).sum();
                if sum_messages != d.messages_count {
                    h.violate("C16", "stream_is_sum_of_topics", "messages", format!("stream {sid} messages {} != sum over topics {}", d.messages_count, sum_messages));
                }
                if sum_size != d.size.as_bytes_u64() {
                    h.violate("C16", "stream_is_sum_of_topics", "size", format!("stream {sid} size {} != sum over topics {}", d.size.as_bytes_u64(), sum_size));
                }
            }
            *h.stats.ops_ok.entry("get_stream").or_insert(0) += 1;
        }
        (Ok(Some(d)), None) => h.violate("C06", "get_equals_model", "phantom_stream", format!("get_stream {stream:?} returned {}:{} which the model does not have", d.id, d.name)),
        (Ok(None), Some(sid)) => h.violate("C06", "get_equals_model", "stream_missing", format!("get_stream {stream:?} found nothing, model has {sid}")),
        (Err(e), Some(sid)) => h.violate("C06", "get_equals_model", "stream_error", format!("get_stream {stream:?} failed ({e:?}), model has {sid}")),
        _ => {}
    }
}

pub async fn check_streams_listing(h: &mut Harness, c: usize) {
    let result = crate::routed!(h, c, get_streams());
    if !h.perm_gate("get_streams", result.is_ok(), result.as_ref().err()) {
        return;
    }
    match result {
        Ok(list) => {
            let mut got: Vec<(u32, String, u32)> = list.iter().map(|s| (s.id, s.name.clone(), s.topics_count)).collect();
            got.sort();
            let want: Vec<(u32, String, u32)> = h.model.streams.values().map(|s| (s.id, s.name.clone(), s.topics.len() as u32)).collect();
            if got != want {
                h.violate("C06", "get_equals_model", "streams_listing", format!("get_streams: {got:?} vs model {want:?}"));
            }
            *h.stats.ops_ok.entry("get_streams").or_insert(0) += 1;
        }
        Err(e) => h.violate("C06", "get_equals_model", "streams_error", format!("get_streams failed: {e:?}")),
    }
}

/// Catalogue part of the audit: every listing and every entity compared with the model.
pub async fn audit_catalogue(h: &mut Harness) {
    check_streams_listing(h, 0).await;
    let streams: Vec<u32> = h.model.streams.keys().copied().collect();
    for sid in streams {
        check_stream(h, 0, &IdRef::Num(sid)).await;
        check_topics_listing(h, 0, &IdRef::Num(sid)).await;
        let topics: Vec<(u32, String)> = h.model.streams[&sid].topics.values().map(|t| (t.id, t.name.clone())).collect();
        for (tid, name) in topics {
            check_topic(h, 0, &IdRef::Num(sid), &IdRef::Num(tid)).await;
            // lookup by name and by numeric id agree
            check_topic(h, 0, &IdRef::Num(sid), &IdRef::Name(name)).await;
            crate::harness_grp::audit_topic_groups_and_offsets(h, sid, tid).await;
        }
    }
    crate::harness_grp::audit_users(h).await;
}

#[allow(clippy::too_many_arguments)]
pub async fn poll_as_group(h: &mut Harness, c: usize, sid: u32, tid: u32, partition: Option<u32>, g: &IdRef, kind: &PollKind, count: u32, auto_commit: bool, result: Result<PolledMessages, IggyError>) {
    crate::harness_grp::poll_as_group(h, c, sid, tid, partition, g, kind, count, auto_commit, result).await
}

pub async fn after_background_job(h: &mut Harness, job: Job) {
    crate::harness_grp::after_background_job(h, job).await
}
