//! Consumer groups, users, sessions (filled in by the GRP / AUTH families).

use crate::harness::*;
use crate::ops::*;
use crate::world::Job;
use iggy::client::*;
use iggy::consumer::Consumer;
use iggy::error::IggyError;
use iggy::models::messages::PolledMessages;

pub async fn step_grp(_h: &mut Harness, _op: &Op) {}

#[allow(clippy::too_many_arguments)]
pub async fn poll_as_group(_h: &mut Harness, _c: usize, _sid: u32, _tid: u32, _partition: Option<u32>, _g: &IdRef, _kind: &PollKind, _count: u32, _auto_commit: bool, _result: Result<PolledMessages, IggyError>) {}

pub async fn after_background_job(_h: &mut Harness, _job: Job) {}

/// Stored offsets of every identity the model knows, read back and compared.
pub async fn audit_topic_groups_and_offsets(h: &mut Harness, sid: u32, tid: u32) {
    let parts: Vec<(u32, Vec<(u32, u64)>, Vec<(u32, u64)>, u64)> = h.model.streams[&sid].topics[&tid]
        .partitions
        .values()
        .map(|p| (p.id, p.consumer_offsets.iter().map(|(k, v)| (*k, *v)).collect(), p.group_offsets.iter().map(|(k, v)| (*k, *v)).collect(), p.current_offset()))
        .collect();
    let s = IdRef::Num(sid).to_identifier();
    let t = IdRef::Num(tid).to_identifier();
    for (p, consumers, groups, _current) in parts {
        for (key, value) in consumers {
            let got = h.clients[0].as_ref().unwrap().get_consumer_offset(&Consumer::new(IdRef::Num(key).to_identifier()), &s, &t, Some(p)).await;
            let got = got.ok().flatten().map(|i| i.stored_offset);
            if got != Some(value) {
                h.violate("C07", "get_returns_last_stored", if got.is_none() { "stored_offset_invisible" } else { "wrong_value" }, format!("audit: consumer {key} on {sid}/{tid}/{p}: got {got:?}, stored {value}"));
            }
        }
        for (key, value) in groups {
            let got = h.clients[0].as_ref().unwrap().get_consumer_offset(&Consumer::group(IdRef::Num(key).to_identifier()), &s, &t, Some(p)).await;
            let got = got.ok().flatten().map(|i| i.stored_offset);
            if got != Some(value) {
                h.violate("C07", "get_returns_last_stored", if got.is_none() { "stored_offset_invisible" } else { "wrong_value" }, format!("audit: group {key} on {sid}/{tid}/{p}: got {got:?}, stored {value}"));
            }
        }
    }
}

pub async fn audit_users(_h: &mut Harness) {}
