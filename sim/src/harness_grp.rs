//! Consumer groups (C08), stored offsets of groups (C07) and the connection-level bookkeeping they need.

use crate::harness::*;
use crate::model::*;
use crate::ops::*;
use crate::world::Job;
use iggy::client::*;
use iggy::consumer::Consumer;
use iggy::error::IggyError;
use iggy::models::messages::PolledMessages;
use std::collections::{BTreeMap, BTreeSet};

fn ready(h: &Harness, c: usize) -> bool {
    h.model.sessions.get(c).map(|s| s.connected && s.user != 0).unwrap_or(false) && h.clients.get(c).map(|x| x.is_some()).unwrap_or(false)
}

pub async fn step_grp(h: &mut Harness, op: &Op) {
    match op {
        Op::CreateGroup { c, stream, topic, id, name } => create_group(h, *c, stream, topic, *id, name).await,
        Op::DeleteGroup { c, stream, topic, group } => delete_group(h, *c, stream, topic, group).await,
        Op::JoinGroup { c, stream, topic, group } => join_group(h, *c, stream, topic, group).await,
        Op::LeaveGroup { c, stream, topic, group } => leave_group(h, *c, stream, topic, group).await,
        Op::GetGroups { c, stream, topic } => {
            // listings are judged through the administrator's connection only (see audits)
            if ready(h, *c) && h.model.sessions[*c].user == 1 {
                if let Some((sid, tid)) = h.model.topic_ids(stream, topic) {
                    check_groups_of_topic(h, *c, sid, tid).await;
                }
            }
        }
        Op::GetGroup { c, stream, topic, group } => {
            if ready(h, *c) {
                let result = h.clients[*c].as_ref().unwrap().get_consumer_group(&stream.to_identifier(), &topic.to_identifier(), &group.to_identifier()).await;
                if !h.perm_gate_found("get_consumer_group", matches!(result, Ok(Some(_))), result.is_ok(), result.as_ref().err()) {
                    return;
                }
                let exists = h.model.topic(stream, topic).and_then(|t| Model::group_id(t, group)).is_some();
                match (result, exists) {
                    (Ok(Some(_)), true) | (Ok(None), false) | (Err(_), false) => {}
                    (Ok(Some(d)), false) => h.violate("C06", "get_equals_model", "phantom_group", format!("get_consumer_group returned {}:{} which the model does not have", d.id, d.name)),
                    (Ok(None), true) => h.violate("C06", "get_equals_model", "group_missing", format!("get_consumer_group {group:?} found nothing")),
                    (Err(e), true) => h.violate("C06", "get_equals_model", "group_error", format!("get_consumer_group {group:?} failed: {e:?}")),
                }
            }
        }
        Op::Ping { c } => {
            if let Some(client) = h.clients.get(*c).and_then(|x| x.as_ref()) {
                let result = client.ping().await;
                if result.is_ok() {
                    let now = h.sim.now_micros();
                    h.last_ping.insert(*c, now);
                } else if h.model.sessions[*c].connected {
                    h.violate("C09", "ping_always_allowed", "ping_refused", format!("ping on connection {c} failed: {:?}", result.err()));
                }
            }
        }
        other => crate::harness_auth::step_auth(h, other).await,
    }
}

async fn create_group(h: &mut Harness, c: usize, stream: &IdRef, topic: &IdRef, id: Option<u32>, name: &str) {
    if !ready(h, c) {
        return;
    }
    let result = crate::routed!(h, c, create_consumer_group(&stream.to_identifier(), &topic.to_identifier(), name, id));
    if !h.perm_gate("create_consumer_group", result.is_ok(), result.as_ref().err()) {
        return;
    }
    let ids = h.model.topic_ids(stream, topic);
    let (name_taken, id_taken) = match h.model.topic(stream, topic) {
        Some(t) => (t.groups.values().any(|g| g.name == name), id.map(|i| t.groups.contains_key(&i)).unwrap_or(false)),
        None => (false, false),
    };
    let expect_ok = ids.is_some() && !name.is_empty() && name.len() <= 255 && id != Some(0) && !name_taken && !id_taken;
    if expect_ok && result.is_err() {
        h.violate("C06", "valid_command_fails", format!("create_group:{}", result.as_ref().err().map(|e| e.as_string()).unwrap_or_default()), format!("valid create_consumer_group failed: {:?}", result.as_ref().err()));
    } else if !expect_ok && result.is_ok() {
        h.violate("C06", "invalid_command_refused", "create_group", format!("invalid create_consumer_group {name}/{id:?} accepted"));
    }
    if let (Ok(details), Some((sid, tid))) = (result, ids) {
        *h.stats.ops_ok.entry("create_group").or_insert(0) += 1;
        if let Some(i) = id {
            if details.id != i {
                h.violate("C06", "create_returns_requested_id", "group", format!("asked group id {i}, got {}", details.id));
            }
        }
        let t = h.model.streams.get_mut(&sid).unwrap().topics.get_mut(&tid).unwrap();
        if t.groups.contains_key(&details.id) {
            h.violate("C06", "ids_unique", "group_id_reused", format!("new group got id {} of a live group", details.id));
            return;
        }
        t.groups.insert(details.id, MGroup { id: details.id, name: name.to_string(), members: Vec::new() });
    }
}

async fn delete_group(h: &mut Harness, c: usize, stream: &IdRef, topic: &IdRef, group: &IdRef) {
    if !ready(h, c) {
        return;
    }
    let result = crate::routed!(h, c, delete_consumer_group(&stream.to_identifier(), &topic.to_identifier(), &group.to_identifier()));
    if !h.perm_gate("delete_consumer_group", result.is_ok(), result.as_ref().err()) {
        return;
    }
    let target = h.model.topic_ids(stream, topic).and_then(|(s, t)| Model::group_id(&h.model.streams[&s].topics[&t], group).map(|g| (s, t, g)));
    if target.is_some() && result.is_err() {
        h.violate("C06", "valid_command_fails", "delete_group", format!("valid delete_consumer_group failed: {:?}", result.as_ref().err()));
    } else if target.is_none() && result.is_ok() {
        h.violate("C06", "invalid_command_refused", "delete_group", "delete of an unknown consumer group accepted");
    }
    if let (Ok(()), Some((sid, tid, gid))) = (result, target) {
        let t = h.model.streams.get_mut(&sid).unwrap().topics.get_mut(&tid).unwrap();
        t.groups.remove(&gid);
        // stored offsets of the group vanish with it
        for p in t.partitions.values_mut() {
            p.group_offsets.remove(&gid);
        }
        h.rotation.retain(|k, _| !(k.0 == sid && k.1 == tid && k.2 == gid));
        *h.stats.ops_ok.entry("delete_group").or_insert(0) += 1;
    }
}

async fn learn_client_id(h: &mut Harness, c: usize) -> Option<u32> {
    if let Some(id) = h.model.sessions[c].client_id {
        return Some(id);
    }
    let me = h.clients[c].as_ref()?.get_me().await.ok()?;
    h.model.sessions[c].client_id = Some(me.client_id);
    Some(me.client_id)
}

async fn join_group(h: &mut Harness, c: usize, stream: &IdRef, topic: &IdRef, group: &IdRef) {
    if !ready(h, c) {
        return;
    }
    let Some(client_id) = learn_client_id(h, c).await else { return };
    let result = h.clients[c].as_ref().unwrap().join_consumer_group(&stream.to_identifier(), &topic.to_identifier(), &group.to_identifier()).await;
    if !h.perm_gate("join_consumer_group", result.is_ok(), result.as_ref().err()) {
        return;
    }
    let target = h.model.topic_ids(stream, topic).and_then(|(s, t)| Model::group_id(&h.model.streams[&s].topics[&t], group).map(|g| (s, t, g)));
    if target.is_some() && result.is_err() {
        h.violate("C06", "valid_command_fails", "join_group", format!("valid join_consumer_group failed: {:?}", result.as_ref().err()));
    } else if target.is_none() && result.is_ok() {
        h.violate("C06", "invalid_command_refused", "join_group", "join of an unknown consumer group accepted");
    }
    if let (Ok(()), Some((sid, tid, gid))) = (result, target) {
        let g = h.model.streams.get_mut(&sid).unwrap().topics.get_mut(&tid).unwrap().groups.get_mut(&gid).unwrap();
        if !g.members.contains(&client_id) {
            g.members.push(client_id);
        }
        h.rotation.retain(|k, _| !(k.0 == sid && k.1 == tid && k.2 == gid));
        *h.stats.ops_ok.entry("join_group").or_insert(0) += 1;
        check_groups_of_topic(h, c, sid, tid).await;
    }
}

async fn leave_group(h: &mut Harness, c: usize, stream: &IdRef, topic: &IdRef, group: &IdRef) {
    if !ready(h, c) {
        return;
    }
    let Some(client_id) = learn_client_id(h, c).await else { return };
    let result = h.clients[c].as_ref().unwrap().leave_consumer_group(&stream.to_identifier(), &topic.to_identifier(), &group.to_identifier()).await;
    if !h.perm_gate("leave_consumer_group", result.is_ok(), result.as_ref().err()) {
        return;
    }
    let target = h.model.topic_ids(stream, topic).and_then(|(s, t)| Model::group_id(&h.model.streams[&s].topics[&t], group).map(|g| (s, t, g)));
    if let Some((sid, tid, gid)) = target {
        let was_member = h.model.streams[&sid].topics[&tid].groups[&gid].members.contains(&client_id);
        if was_member && result.is_err() {
            h.violate("C06", "valid_command_fails", "leave_group", format!("leave by a member failed: {:?}", result.as_ref().err()));
        }
        if result.is_ok() {
            let g = h.model.streams.get_mut(&sid).unwrap().topics.get_mut(&tid).unwrap().groups.get_mut(&gid).unwrap();
            g.members.retain(|m| *m != client_id);
            h.rotation.retain(|k, _| !(k.0 == sid && k.1 == tid && k.2 == gid));
            *h.stats.ops_ok.entry("leave_group").or_insert(0) += 1;
        }
        check_groups_of_topic(h, c, sid, tid).await;
    }
}

/// A connection went away (closed, evicted): the model forgets its memberships everywhere.
pub fn forget_client(h: &mut Harness, client_id: u32) {
    for s in h.model.streams.values_mut() {
        for t in s.topics.values_mut() {
            for g in t.groups.values_mut() {
                g.members.retain(|m| *m != client_id);
            }
        }
    }
    h.rotation.clear();
}

/// C08: the assignment invariants of every group of a topic, from `get_consumer_group`.
pub async fn check_groups_of_topic(h: &mut Harness, c: usize, sid: u32, tid: u32) {
    let Some(client) = h.clients.get(c).and_then(|x| x.as_ref()) else { return };
    let s = IdRef::Num(sid).to_identifier();
    let t = IdRef::Num(tid).to_identifier();
    let listing = client.get_consumer_groups(&s, &t).await;
    let topic = h.model.streams[&sid].topics[&tid].clone();
    match listing {
        Ok(list) => {
            let mut got: Vec<(u32, String)> = list.iter().map(|g| (g.id, g.name.clone())).collect();
            got.sort();
            let want: Vec<(u32, String)> = topic.groups.values().map(|g| (g.id, g.name.clone())).collect();
            if got != want {
                h.violate("C06", "get_equals_model", "groups_listing", format!("groups of {sid}/{tid}: {got:?} vs model {want:?}"));
            }
        }
        Err(e) => h.violate("C06", "get_equals_model", "groups_error", format!("get_consumer_groups of {sid}/{tid} failed: {e:?}")),
    }
    let partitions: BTreeSet<u32> = topic.partitions.keys().copied().collect();
    for g in topic.groups.values() {
        let client = h.clients[c].as_ref().unwrap();
        let details = match client.get_consumer_group(&s, &t, &IdRef::Num(g.id).to_identifier()).await {
            Ok(Some(d)) => d,
            Ok(None) => {
                h.violate("C06", "get_equals_model", "group_missing", format!("group {} of {sid}/{tid} not found", g.id));
                continue;
            }
            Err(e) => {
                h.violate("C06", "get_equals_model", "group_error", format!("group {} of {sid}/{tid}: {e:?}", g.id));
                continue;
            }
        };
        h.stats.probe("group_assignment_checked");
        let mut members: Vec<u32> = details.members.iter().map(|m| m.id).collect();
        members.sort();
        let mut want_members = g.members.clone();
        want_members.sort();
        if members != want_members {
            h.violate("C08", "members_equal_model", if members.len() > want_members.len() { "stale_member" } else { "member_missing" }, format!("group {}/{}/{}: members {members:?}, model {want_members:?}", sid, tid, g.id));
            continue;
        }
        if details.members_count as usize != details.members.len() {
            h.violate("C08", "members_equal_model", "members_count_field", format!("group {}: members_count {} vs {} listed", g.id, details.members_count, details.members.len()));
        }
        if details.partitions_count != partitions.len() as u32 {
            h.violate("C08", "group_tracks_partition_count", "partitions_count", format!("group {}/{}/{} thinks the topic has {} partitions, it has {}", sid, tid, g.id, details.partitions_count, partitions.len()));
        }
        if members.is_empty() {
            continue;
        }
        let mut seen: BTreeMap<u32, u32> = BTreeMap::new();
        let mut shares: Vec<usize> = Vec::new();
        for m in &details.members {
            shares.push(m.partitions.len());
            if m.partitions_count as usize != m.partitions.len() {
                h.violate("C08", "members_equal_model", "member_partitions_count_field", format!("member {}: partitions_count {} vs {:?}", m.id, m.partitions_count, m.partitions));
            }
            for p in &m.partitions {
                if let Some(other) = seen.insert(*p, m.id) {
                    h.violate("C08", "exclusive_assignment", "partition_assigned_twice", format!("group {}/{}/{}: partition {p} assigned to members {other} and {}", sid, tid, g.id, m.id));
                }
                if !partitions.contains(p) {
                    h.violate("C08", "exclusive_assignment", "unknown_partition_assigned", format!("group {}/{}/{}: member {} holds partition {p}, topic has {partitions:?}", sid, tid, g.id, m.id));
                }
            }
        }
        for p in &partitions {
            if !seen.contains_key(p) {
                h.violate("C08", "exclusive_assignment", "partition_unassigned", format!("group {}/{}/{}: partition {p} is assigned to nobody ({} members)", sid, tid, g.id, members.len()));
            }
        }
        let max = shares.iter().max().copied().unwrap_or(0);
        let min = shares.iter().min().copied().unwrap_or(0);
        if max - min > 1 {
            h.violate("C08", "even_assignment", "shares_differ_by_more_than_one", format!("group {}/{}/{}: shares {shares:?}", sid, tid, g.id));
        }
        if members.len() > partitions.len() {
            h.stats.probe("more_members_than_partitions");
        }
        if members.len() >= 2 {
            h.stats.probe("group_with_two_or_more_members");
        }
    }
}

#[allow(clippy::too_many_arguments)]
pub async fn poll_as_group(h: &mut Harness, c: usize, sid: u32, tid: u32, partition: Option<u32>, g: &IdRef, kind: &PollKind, count: u32, auto_commit: bool, result: Result<PolledMessages, IggyError>) {
    let topic = h.model.streams[&sid].topics[&tid].clone();
    let Some(gid) = Model::group_id(&topic, g) else {
        if result.is_ok() {
            h.violate("C08", "poll_unknown_group", "accepted", format!("poll as unknown group {g:?} succeeded"));
        }
        return;
    };
    // (a user without the right to read clients cannot be told its client id: membership is not judged then,
    // but the response is still followed - the poll has been served and may have committed an offset)
    let client_id = learn_client_id(h, c).await;
    let p = match partition {
        Some(p) => {
            if !topic.partitions.contains_key(&p) {
                return;
            }
            p
        }
        None => {
            let Some(client_id) = client_id else {
                h.stats.probe("group_poll_by_a_client_of_unknown_id");
                match &result {
                    // only a member is served without a partition id, and nobody joins without a known id
                    Ok(polled) => h.violate("C08", "only_members_are_served", "non_member_served", format!("a client that never joined group {gid} was served from partition {}", polled.partition_id)),
                    Err(_) => {}
                }
                return;
            };
            let is_member = topic.groups[&gid].members.contains(&client_id);
            if !is_member {
                if result.is_ok() {
                    h.violate("C08", "only_members_are_served", "non_member_served", format!("client {client_id} is not a member of group {gid} but its poll succeeded"));
                }
                return;
            }
            // the share of this member, as the server reports it
            let details = h.clients[c].as_ref().unwrap().get_consumer_group(&IdRef::Num(sid).to_identifier(), &IdRef::Num(tid).to_identifier(), &IdRef::Num(gid).to_identifier()).await;
            let share: Vec<u32> = match details {
                Ok(Some(d)) => d.members.iter().find(|m| m.id == client_id).map(|m| m.partitions.clone()).unwrap_or_default(),
                _ => return,
            };
            let Ok(polled) = &result else {
                h.violate("C08", "member_poll_ok", "error", format!("poll by member {client_id} of group {gid} failed: {:?}", result.as_ref().err()));
                return;
            };
            if share.is_empty() {
                if !polled.messages.is_empty() {
                    h.violate("C08", "served_only_from_own_share", "member_without_partitions_served", format!("member {client_id} has no partition but got {} messages from {}", polled.messages.len(), polled.partition_id));
                }
                h.stats.probe("member_without_partitions_polled");
                return;
            }
            if !topic.partitions.contains_key(&polled.partition_id) {
                h.violate("C08", "exclusive_assignment", "unknown_partition_served", format!("member {client_id} of group {gid} was served from partition {}, which the topic does not have", polled.partition_id));
                return;
            }
            if !share.contains(&polled.partition_id) {
                h.violate("C08", "served_only_from_own_share", "foreign_partition", format!("member {client_id} of group {gid} holds {share:?} but was served from partition {}", polled.partition_id));
                return;
            }
            // rotation: within any |share| consecutive polls every partition of the share appears once
            let key = (sid, tid, gid, client_id);
            let history = h.rotation.entry(key).or_default();
            history.push(polled.partition_id);
            let n = share.len();
            if history.len() >= n {
                let window = &history[history.len() - n..];
                let distinct: BTreeSet<u32> = window.iter().copied().collect();
                if distinct.len() != n {
                    let w = window.to_vec();
                    h.violate("C08", "share_visited_in_turn", "partition_skipped_or_repeated", format!("member {client_id} of group {gid} with share {share:?} was served {w:?} in its last {n} polls"));
                } else if n >= 2 {
                    h.stats.probe("rotation_window_checked");
                }
            }
            h.model.member_current.insert(key, polled.partition_id);
            polled.partition_id
        }
    };
    let Ok(polled) = result else {
        if partition.is_some() {
            h.violate("C02", "poll_fails", "group_error", format!("poll as group {gid} on partition {p} failed: {:?}", result.err()));
        }
        return;
    };
    *h.stats.ops_ok.entry("poll").or_insert(0) += 1;
    let stored = h.model.streams[&sid].topics[&tid].partitions[&p].group_offsets.get(&gid).copied();
    h.judge_poll(sid, tid, p, kind, count, stored, &polled, "group_poll");
    if matches!(kind, PollKind::Next) && auto_commit && !polled.messages.is_empty() {
        h.stats.probe("group_next_autocommit_served");
    }
    if auto_commit {
        if let Some(last) = polled.messages.last() {
            h.pm(sid, tid, p).group_offsets.insert(gid, last.offset);
        }
    }
}

pub async fn after_background_job(h: &mut Harness, job: Job) {
    if job == Job::VerifyHeartbeats {
        crate::harness_auth::after_heartbeat_verification(h).await;
    } else if job == Job::CleanTokens {
        crate::harness_auth::after_token_cleaning(h).await;
    }
}

/// Stored offsets of every identity the model knows, read back and compared; group invariants.
pub async fn audit_topic_groups_and_offsets(h: &mut Harness, sid: u32, tid: u32) {
    let parts: Vec<(u32, Vec<(u32, u64)>, Vec<(u32, u64)>, bool)> = h.model.streams[&sid].topics[&tid]
        .partitions
        .values()
        .map(|p| (p.id, p.consumer_offsets.iter().map(|(k, v)| (*k, *v)).collect(), p.group_offsets.iter().map(|(k, v)| (*k, *v)).collect(), p.tainted))
        .collect();
    let s = IdRef::Num(sid).to_identifier();
    let t = IdRef::Num(tid).to_identifier();
    for (p, consumers, groups, tainted) in parts {
        if tainted {
            continue;
        }
        for (key, value) in consumers {
            let got = h.clients[0].as_ref().unwrap().get_consumer_offset(&Consumer::new(IdRef::Num(key).to_identifier()), &s, &t, Some(p)).await;
            let got = got.ok().flatten().map(|i| i.stored_offset);
            if got != Some(value) {
                h.violate("C07", "get_returns_last_stored", if got.is_none() { "stored_offset_invisible" } else { "wrong_value" }, format!("audit: consumer {key} on {sid}/{tid}/{p}: got {got:?}, stored {value}"));
            }
        }
        for (key, value) in groups {
            let got = h.clients[0].as_ref().unwrap().get_consumer_offset(&Consumer::group(IdRef::Num(key).to_identifier()), &s, &t, Some(p)).await;
            let got = got.ok().flatten().map(|i| i.stored_offset);
            if got != Some(value) {
                h.violate("C07", "get_returns_last_stored", if got.is_none() { "stored_offset_invisible" } else { "wrong_value" }, format!("audit: group {key} on {sid}/{tid}/{p}: got {got:?}, stored {value}"));
            }
        }
    }
    check_groups_of_topic(h, 0, sid, tid).await;
}

pub async fn audit_users(h: &mut Harness) {
    crate::harness_auth::audit_users(h).await;
}
