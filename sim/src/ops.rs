//! The operation language of the simulator: fully concrete, serialisable operations. A run records the
//! operations it generated, so a replay file is just a configuration plus this list.

use crate::world::{Job, StopKind};
use bytes::Bytes;
use iggy::identifier::Identifier;
use iggy::messages::send_messages::Message;
use iggy::models::header::{HeaderKey, HeaderKind, HeaderValue};
use serde::{Deserialize, Serialize};
use std::collections::{BTreeMap, HashMap};

#[derive(Clone, Debug, PartialEq, Eq, Hash, Serialize, Deserialize)]
pub enum IdRef {
    Num(u32),
    Name(String),
}

impl IdRef {
    pub fn to_identifier(&self) -> Identifier {
        match self {
            IdRef::Num(n) => Identifier::numeric(*n).unwrap_or_else(|_| Identifier::numeric(u32::MAX).unwrap()),
            IdRef::Name(s) => Identifier::named(s).unwrap_or_else(|_| Identifier::named("x").unwrap()),
        }
    }
}

/// A message to send: content is a pure function of (id, salt, len, header_seed).
#[derive(Clone, Debug, PartialEq, Eq, Serialize, Deserialize)]
pub struct MsgSpec {
    pub id: u128,
    pub salt: u32,
    pub len: u32,
    pub headers: u8,
}

pub type CanonHeaders = BTreeMap<String, (u8, Vec<u8>)>;

impl MsgSpec {
    pub fn payload(&self) -> Vec<u8> {
        // recognisable marker (>= 16 bytes when len allows) so that byte scans can find it in files
        let marker = format!("<<PAYLOAD:{:032x}:{:08x}>>", self.id, self.salt);
        let mut out = Vec::with_capacity(self.len as usize);
        let bytes = marker.as_bytes();
        let mut i = 0usize;
        while out.len() < self.len as usize {
            out.push(bytes[i % bytes.len()]);
            i += 1;
        }
        out
    }

    pub fn canon_headers(&self) -> Option<CanonHeaders> {
        if self.headers == 0 {
            return None;
        }
        let mut rng = crate::rng::Rng::new(self.id as u64 ^ ((self.salt as u64) << 32) ^ 0x5eed);
        let mut map = BTreeMap::new();
        for i in 0..self.headers {
            // boundary lengths of keys and of raw / string values: 1, 254 and 255 bytes
            let key = match rng.below(12) {
                0 => format!("{}", (b'a' + i) as char),
                1 => format!("{}{}", "k".repeat(253), i),
                2 => format!("{}{}", "k".repeat(254), i),
                _ => format!("h{}-{}", i, rng.below(1000)),
            };
            let kind = 1 + rng.below(15) as u8;
            let boundary = match rng.below(12) {
                0 => Some(1usize),
                1 => Some(254),
                2 => Some(255),
                _ => None,
            };
            let value: Vec<u8> = match kind {
                1 => {
                    let n = boundary.unwrap_or(1 + rng.usize_below(20));
                    rng.bytes(n)
                }
                2 => match boundary {
                    Some(n) => "v".repeat(n).into_bytes(),
                    None => format!("v{}", rng.below(1_000_000)).into_bytes(),
                },
                3 => vec![rng.below(2) as u8],
                4 | 9 => rng.bytes(1),
                5 | 10 => rng.bytes(2),
                6 | 11 | 14 => rng.bytes(4),
                7 | 12 | 15 => rng.bytes(8),
                _ => rng.bytes(16),
            };
            map.insert(key, (kind, value));
        }
        Some(map)
    }

    pub fn to_message(&self) -> Message {
        let headers = self.canon_headers().map(|canon| {
            let mut map = HashMap::new();
            for (key, (kind, value)) in canon {
                map.insert(
                    HeaderKey::new(&key).unwrap(),
                    HeaderValue {
                        kind: HeaderKind::from_code(kind).unwrap(),
                        value: Bytes::from(value),
                    },
                );
            }
            map
        });
        Message::new(Some(self.id), Bytes::from(self.payload()), headers)
    }
}

pub fn canon_headers_of(headers: &Option<HashMap<HeaderKey, HeaderValue>>) -> Option<CanonHeaders> {
    headers.as_ref().map(|map| {
        map.iter()
            .map(|(k, v)| (k.as_str().to_string(), (v.kind.as_code(), v.value.to_vec())))
            .collect()
    })
}

#[derive(Clone, Debug, PartialEq, Eq, Serialize, Deserialize)]
pub enum Part {
    Balanced,
    Id(u32),
    Key(Vec<u8>),
}

#[derive(Clone, Debug, PartialEq, Eq, Serialize, Deserialize)]
pub enum PollKind {
    Offset(u64),
    Timestamp(u64),
    First,
    Last,
    Next,
}

#[derive(Clone, Debug, PartialEq, Eq, Hash, Serialize, Deserialize)]
pub enum Who {
    Consumer(IdRef),
    Group(IdRef),
}

#[derive(Clone, Debug, PartialEq, Eq, Serialize, Deserialize)]
pub enum Expiry {
    ServerDefault,
    Never,
    Micros(u64),
}

#[derive(Clone, Debug, PartialEq, Eq, Serialize, Deserialize)]
pub enum MaxSize {
    ServerDefault,
    Unlimited,
    Bytes(u64),
}

#[derive(Clone, Debug, PartialEq, Eq, Serialize, Deserialize)]
pub struct PermSpec {
    /// global flags in declaration order of `GlobalPermissions`
    pub global: [bool; 10],
    /// per-stream records: (stream id, 6 flags, optional topic table: (topic id, 4 flags))
    pub streams: Option<Vec<(u32, [bool; 6], Option<Vec<(u32, [bool; 4])>>)>>,
}

#[derive(Clone, Debug, PartialEq, Eq, Serialize, Deserialize)]
pub enum Op {
    // ---- catalogue
    CreateStream { c: usize, id: Option<u32>, name: String },
    UpdateStream { c: usize, stream: IdRef, name: String },
    DeleteStream { c: usize, stream: IdRef },
    PurgeStream { c: usize, stream: IdRef },
    CreateTopic { c: usize, stream: IdRef, id: Option<u32>, name: String, partitions: u32, expiry: Expiry, max_size: MaxSize, replication: Option<u8>, compression: u8 },
    UpdateTopic { c: usize, stream: IdRef, topic: IdRef, name: String, expiry: Expiry, max_size: MaxSize, replication: Option<u8>, compression: u8 },
    DeleteTopic { c: usize, stream: IdRef, topic: IdRef },
    PurgeTopic { c: usize, stream: IdRef, topic: IdRef },
    CreatePartitions { c: usize, stream: IdRef, topic: IdRef, count: u32 },
    DeletePartitions { c: usize, stream: IdRef, topic: IdRef, count: u32 },
    CreateGroup { c: usize, stream: IdRef, topic: IdRef, id: Option<u32>, name: String },
    DeleteGroup { c: usize, stream: IdRef, topic: IdRef, group: IdRef },
    JoinGroup { c: usize, stream: IdRef, topic: IdRef, group: IdRef },
    LeaveGroup { c: usize, stream: IdRef, topic: IdRef, group: IdRef },
    // ---- data
    Send { c: usize, stream: IdRef, topic: IdRef, part: Part, msgs: Vec<MsgSpec> },
    Poll { c: usize, stream: IdRef, topic: IdRef, partition: Option<u32>, who: Who, kind: PollKind, count: u32, auto_commit: bool },
    Flush { c: usize, stream: IdRef, topic: IdRef, partition: u32, fsync: bool },
    StoreOffset { c: usize, stream: IdRef, topic: IdRef, partition: Option<u32>, who: Who, offset: u64 },
    GetOffset { c: usize, stream: IdRef, topic: IdRef, partition: Option<u32>, who: Who },
    DeleteOffset { c: usize, stream: IdRef, topic: IdRef, partition: Option<u32>, who: Who },
    // ---- users and sessions
    CreateUser { c: usize, name: String, password: String, active: bool, perms: Option<PermSpec> },
    DeleteUser { c: usize, user: IdRef },
    UpdateUser { c: usize, user: IdRef, name: Option<String>, active: Option<bool> },
    UpdatePermissions { c: usize, user: IdRef, perms: Option<PermSpec> },
    ChangePassword { c: usize, user: IdRef, current: String, new: String },
    Login { c: usize, name: String, password: String },
    Logout { c: usize },
    CreatePat { c: usize, name: String, expiry_micros: u64 },
    DeletePat { c: usize, name: String },
    LoginPat { c: usize, token_ref: usize },
    // ---- queries (each response is compared with the model)
    GetStreams { c: usize },
    GetStream { c: usize, stream: IdRef },
    GetTopics { c: usize, stream: IdRef },
    GetTopic { c: usize, stream: IdRef, topic: IdRef },
    GetGroups { c: usize, stream: IdRef, topic: IdRef },
    GetGroup { c: usize, stream: IdRef, topic: IdRef, group: IdRef },
    GetUsers { c: usize },
    GetUser { c: usize, user: IdRef },
    GetPats { c: usize },
    GetMe { c: usize },
    GetClients { c: usize },
    GetStats { c: usize },
    Ping { c: usize },
    // ---- simulator operations
    Tick(u64),
    Jump(u64),
    BackJump(u64),
    RunJob(Job),
    Settle,
    Restart(StopKind),
    /// restart with the index files of open/closed segments removed while the server is down
    RestartLosingIndexes(StopKind),
    Connect { c: usize },
    Disconnect { c: usize },
    /// full consistency audit: every partition read completely and compared, counters compared
    Audit,
    /// clean restart with another encryption key (`off` = with encryption switched off), judged, then a
    /// restart with the right key again
    RestartKeyMismatch { off: bool },
    /// a send to an explicit partition followed *at once* (no quiescence in between) by a purge of the topic
    /// through the administrator's connection: whatever background work the send left behind (a batch on its
    /// way to the file under no-wait confirmation, a segment being closed) meets the deletion of its segment
    SendThenPurge { stream: IdRef, topic: IdRef, partition: u32, msgs: Vec<MsgSpec> },
    /// a send to an explicit partition followed *at once* (no quiescence in between) by a graceful stop and a
    /// start: what was acknowledged must survive a clean restart whatever background work it left behind
    SendThenRestart { stream: IdRef, topic: IdRef, partition: u32, msgs: Vec<MsgSpec>, kind: StopKind },
    /// every kind of request on a fresh connection that never authenticated
    UnauthProbe { which: u32 },
    /// malformed frames on a fresh connection, derived from `seed`
    Garbage { seed: u64 },
}

impl Op {
    pub fn name(&self) -> &'static str {
        match self {
            Op::CreateStream { .. } => "create_stream",
            Op::UpdateStream { .. } => "update_stream",
            Op::DeleteStream { .. } => "delete_stream",
            Op::PurgeStream { .. } => "purge_stream",
            Op::CreateTopic { .. } => "create_topic",
            Op::UpdateTopic { .. } => "update_topic",
            Op::DeleteTopic { .. } => "delete_topic",
            Op::PurgeTopic { .. } => "purge_topic",
            Op::SendThenPurge { .. } => "send_then_purge",
            Op::SendThenRestart { .. } => "send_then_restart",
            Op::CreatePartitions { .. } => "create_partitions",
            Op::DeletePartitions { .. } => "delete_partitions",
            Op::CreateGroup { .. } => "create_group",
            Op::DeleteGroup { .. } => "delete_group",
            Op::JoinGroup { .. } => "join_group",
            Op::LeaveGroup { .. } => "leave_group",
            Op::Send { .. } => "send",
            Op::Poll { .. } => "poll",
            Op::Flush { .. } => "flush",
            Op::StoreOffset { .. } => "store_offset",
            Op::GetOffset { .. } => "get_offset",
            Op::DeleteOffset { .. } => "delete_offset",
            Op::CreateUser { .. } => "create_user",
            Op::DeleteUser { .. } => "delete_user",
            Op::UpdateUser { .. } => "update_user",
            Op::UpdatePermissions { .. } => "update_permissions",
            Op::ChangePassword { .. } => "change_password",
            Op::Login { .. } => "login",
            Op::Logout { .. } => "logout",
            Op::CreatePat { .. } => "create_pat",
            Op::DeletePat { .. } => "delete_pat",
            Op::LoginPat { .. } => "login_pat",
            Op::GetStreams { .. } => "get_streams",
            Op::GetStream { .. } => "get_stream",
            Op::GetTopics { .. } => "get_topics",
            Op::GetTopic { .. } => "get_topic",
            Op::GetGroups { .. } => "get_groups",
            Op::GetGroup { .. } => "get_group",
            Op::GetUsers { .. } => "get_users",
            Op::GetUser { .. } => "get_user",
            Op::GetPats { .. } => "get_pats",
            Op::GetMe { .. } => "get_me",
            Op::GetClients { .. } => "get_clients",
            Op::GetStats { .. } => "get_stats",
            Op::Ping { .. } => "ping",
            Op::Tick(_) => "tick",
            Op::Jump(_) => "jump",
            Op::BackJump(_) => "back_jump",
            Op::RunJob(Job::Save) => "job_save",
            Op::RunJob(Job::Maintain) => "job_maintain",
            Op::RunJob(Job::CleanTokens) => "job_clean_tokens",
            Op::RunJob(Job::VerifyHeartbeats) => "job_verify_heartbeats",
            Op::Settle => "settle",
            Op::Restart(StopKind::Kill) => "restart_kill",
            Op::Restart(_) => "restart_clean",
            Op::RestartLosingIndexes(_) => "restart_losing_indexes",
            Op::Connect { .. } => "connect",
            Op::Disconnect { .. } => "disconnect",
            Op::Audit => "audit",
            Op::RestartKeyMismatch { .. } => "restart_key_mismatch",
            Op::UnauthProbe { .. } => "unauth_probe",
            Op::Garbage { .. } => "garbage",
        }
    }
}
