//! The check driver: spawns one worker process per core, hands out seeds, aggregates evidence,
//! minimises and re-verifies failures, applies the known-findings file, prints the verdict.

use serde_json::{json, Value};
use std::collections::{BTreeMap, BTreeSet};
use std::io::{BufRead, BufReader, Write};
use std::process::{Command, Stdio};
use std::sync::atomic::{AtomicBool, AtomicU64, Ordering};
use std::sync::mpsc;
use std::sync::Arc;
use std::time::{Duration, Instant};

pub struct Budget {
    pub runs: u64,
    pub wall: Duration,
    pub per_seed: Duration,
}

pub fn budget(prop: &str, tier: &str) -> Budget {
    let quick = tier != "thorough";
    let (q, t): (u64, u64) = match prop {
        "C04" => (800, 30_000),
        "C10" | "C19" => (1_500, 60_000),
        "C11" => (6_000, 300_000),
        "C20" => (3_000, 200_000),
        "C15" | "C17" | "C18" => (2_000, 100_000),
        "C01" | "C02" | "C09" => (3_000, 200_000),
        "C06" | "C12" => (3_000, 200_000),
        _ => (2_500, 150_000),
    };
    let scale: f64 = std::env::var("VERIF_SCALE").ok().and_then(|s| s.parse().ok()).unwrap_or(1.0);
    Budget {
        runs: (((if quick { q } else { t }) as f64) * scale).max(1.0) as u64,
        wall: Duration::from_secs(if quick { 150 } else { 1200 }),
        // VERIF_WATCHDOG_MS exists to exercise the watchdog itself
        per_seed: std::env::var("VERIF_WATCHDOG_MS").ok().and_then(|s| s.parse().ok()).map(Duration::from_millis).unwrap_or(Duration::from_secs(if quick { 60 } else { 120 })),
    }
}

fn exe() -> std::path::PathBuf {
    std::env::current_exe().expect("current exe")
}

fn verif_root() -> std::path::PathBuf {
    std::env::var("VERIF_ROOT").map(std::path::PathBuf::from).unwrap_or_else(|_| std::path::PathBuf::from("/verif"))
}

#[derive(Default)]
struct Agg {
    runs: u64,
    nontrivial: u64,
    shapes: BTreeSet<String>,
    nontrivial_shapes: BTreeSet<String>,
    trace_hashes: BTreeSet<String>,
    states: BTreeSet<u64>,
    steps: u64,
    multi_choice_steps: u64,
    sim_micros: u64,
    ops: BTreeMap<String, u64>,
    ops_ok: BTreeMap<String, u64>,
    probes: BTreeMap<String, u64>,
    faults: BTreeMap<String, u64>,
    fs_ops: BTreeMap<String, u64>,
    polls_compared: u64,
    messages_compared: u64,
    restarts: u64,
    extra: BTreeMap<String, u64>,
    samples: Vec<Value>,
    violations: Vec<(u64, Value)>,
    harness_errors: Vec<(u64, String)>,
    hangs: Vec<u64>,
    corpus_failures: Vec<(String, String)>,
}

fn add_map(into: &mut BTreeMap<String, u64>, v: &Value) {
    if let Some(m) = v.as_object() {
        for (k, n) in m {
            *into.entry(k.clone()).or_insert(0) += n.as_u64().unwrap_or(0);
        }
    }
}

impl Agg {
    fn absorb(&mut self, seed: u64, v: &Value) {
        self.runs += 1;
        if let Ok(path) = std::env::var("VERIF_DUMP_TRACES") {
            // development aid: one line per seed, to compare two batches seed by seed
            use std::io::Write;
            if let Ok(mut f) = std::fs::OpenOptions::new().create(true).append(true).open(path) {
                let _ = writeln!(f, "{seed} {} {}", v["trace_hash"].as_str().unwrap_or("-"), v["steps"].as_u64().unwrap_or(0));
            }
        }
        if v["nontrivial"].as_bool().unwrap_or(false) {
            self.nontrivial += 1;
            if let Some(s) = v["shape"].as_str() {
                self.nontrivial_shapes.insert(s.to_string());
            }
        }
        if let Some(s) = v["shape"].as_str() {
            self.shapes.insert(s.to_string());
        }
        if let Some(s) = v["trace_hash"].as_str() {
            self.trace_hashes.insert(s.to_string());
        }
        if let Some(a) = v["state_hashes"].as_array() {
            for x in a {
                if let Some(n) = x.as_u64() {
                    self.states.insert(n);
                }
            }
        }
        self.steps += v["steps"].as_u64().unwrap_or(0);
        self.multi_choice_steps += v["multi_choice_steps"].as_u64().unwrap_or(0);
        self.sim_micros += v["sim_micros"].as_u64().unwrap_or(0);
        add_map(&mut self.ops, &v["stats"]["ops"]);
        add_map(&mut self.ops_ok, &v["stats"]["ops_ok"]);
        add_map(&mut self.probes, &v["stats"]["probes"]);
        add_map(&mut self.fs_ops, &v["fs_ops"]);
        add_map(&mut self.extra, &v["extra"]);
        self.polls_compared += v["stats"]["polls_compared"].as_u64().unwrap_or(0);
        self.messages_compared += v["stats"]["messages_compared"].as_u64().unwrap_or(0);
        self.restarts += v["stats"]["restarts"].as_u64().unwrap_or(0);
        if let Some(a) = v["faults_fired"].as_array() {
            for f in a {
                if let Some(s) = f.as_str() {
                    let kind = s.split('#').next().unwrap_or(s).to_string();
                    *self.faults.entry(kind).or_insert(0) += 1;
                }
            }
        }
        if self.samples.len() < 3 && v["nontrivial"].as_bool().unwrap_or(false) {
            self.samples.push(json!({"seed": seed, "shape": v["shape"], "ops": v["ops_sample"], "steps": v["steps"]}));
        }
        if let Some(e) = v["harness_error"].as_str() {
            self.harness_errors.push((seed, e.to_string()));
        }
        if let Some(a) = v["violations"].as_array() {
            for viol in a {
                self.violations.push((seed, viol.clone()));
            }
        }
    }
}

/// Where new replay files go: /verif/replays, or VERIF_REPLAY_DIR (used when a seeded change is being tried).
fn replay_dir() -> std::path::PathBuf {
    std::env::var("VERIF_REPLAY_DIR").map(std::path::PathBuf::from).unwrap_or_else(|_| verif_root().join("replays"))
}

struct Known {
    open: Vec<Value>,
}

fn load_known() -> Known {
    // VERIF_KNOWN_FILE: development aid (triage with some findings closed); registered commands never set it
    let path = std::env::var("VERIF_KNOWN_FILE").map(std::path::PathBuf::from).unwrap_or_else(|_| verif_root().join("known_findings.json"));
    let mut open = Vec::new();
    if let Ok(text) = std::fs::read_to_string(path) {
        if let Ok(v) = serde_json::from_str::<Value>(&text) {
            if let Some(a) = v["findings"].as_array() {
                for f in a {
                    if f["status"].as_str() == Some("open") {
                        open.push(f.clone());
                    }
                }
            }
        }
    }
    Known { open }
}

impl Known {
    fn matches(&self, prop: &str, viol: &Value) -> Option<&Value> {
        let oracle = viol["oracle"].as_str().unwrap_or("");
        let tag = viol["tag"].as_str().unwrap_or("");
        self.open.iter().find(|f| {
            // "*" = any oracle: the finding is identified by its cause class (tag suffix) alone
            let oracle_ok = f["oracle"].as_str() == Some(oracle) || f["oracles"].as_array().map(|a| a.iter().any(|o| o.as_str() == Some(oracle) || o.as_str() == Some("*"))).unwrap_or(false);
            let tag_ok = f["tag"].as_str() == Some(tag) || f["tag_suffix"].as_str().map(|suffix| !suffix.is_empty() && tag.ends_with(suffix)).unwrap_or(false);
            f["property"].as_str() == Some(prop) && oracle_ok && tag_ok
        })
    }
}

pub fn check(prop: &str, tier: &str) -> i32 {
    let started = Instant::now();
    // scratch directories of workers that were killed by the watchdog in an earlier check
    if let Ok(rd) = std::fs::read_dir(crate::scen::scratch_base()) {
        for e in rd.flatten() {
            let name = e.file_name().to_string_lossy().to_string();
            if let Some(rest) = name.strip_prefix("iggy-sim-") {
                let pid = rest.split('-').next().unwrap_or("");
                if !std::path::Path::new(&format!("/proc/{pid}")).exists() {
                    let _ = std::fs::remove_dir_all(e.path());
                }
            }
        }
    }
    let base_seed: u64 = std::env::var("VERIF_SEED").ok().and_then(|s| s.parse().ok()).unwrap_or(1);
    let budget = budget(prop, tier);
    let workers: usize = std::env::var("VERIF_WORKERS").ok().and_then(|s| s.parse().ok()).unwrap_or_else(|| std::thread::available_parallelism().map(|n| n.get()).unwrap_or(8).min(16));
    let first_seed = base_seed.wrapping_mul(1_000_000);
    std::env::set_var("VERIF_TIER", if tier == "thorough" { "thorough" } else { "quick" });
    let next = Arc::new(AtomicU64::new(0));
    let stop = Arc::new(AtomicBool::new(false));
    let (tx, rx) = mpsc::channel::<(u64, Result<Value, String>)>();
    let mut handles = Vec::new();
    for _ in 0..workers {
        let next = next.clone();
        let stop = stop.clone();
        let tx = tx.clone();
        let prop = prop.to_string();
        let runs = budget.runs;
        let per_seed = budget.per_seed;
        handles.push(std::thread::spawn(move || worker_loop(&prop, first_seed, runs, per_seed, next, stop, tx)));
    }
    drop(tx);
    let mut agg = Agg::default();
    let deadline = started + budget.wall;
    loop {
        match rx.recv_timeout(Duration::from_millis(200)) {
            Ok((seed, Ok(v))) => agg.absorb(seed, &v),
            Ok((seed, Err(what))) => {
                if what == "hang" {
                    agg.hangs.push(seed);
                } else if what == "slow" {
                    *agg.extra.entry("watchdog_timeouts_that_returned_on_a_second_attempt".into()).or_insert(0) += 1;
                } else {
                    agg.harness_errors.push((seed, what));
                }
            }
            Err(mpsc::RecvTimeoutError::Timeout) => {}
            Err(mpsc::RecvTimeoutError::Disconnected) => break,
        }
        if Instant::now() > deadline {
            stop.store(true, Ordering::SeqCst);
        }
    }
    for h in handles {
        let _ = h.join();
    }
    // regression corpus: minimised histories of defects found (and repaired) earlier must stay clean
    let corpus = verif_root().join("replays").join("corpus");
    if let Ok(rd) = std::fs::read_dir(&corpus) {
        let mut files: Vec<std::path::PathBuf> = rd.flatten().map(|e| e.path()).filter(|p| p.file_name().map(|n| n.to_string_lossy().starts_with(&format!("{prop}-"))).unwrap_or(false)).collect();
        files.sort();
        for file in files {
            let output = Command::new(exe()).arg("replay").arg(&file).stdout(Stdio::piped()).stderr(Stdio::null()).output();
            *agg.extra.entry("corpus_replays".into()).or_insert(0) += 1;
            match output {
                Ok(o) if o.status.code() == Some(0) => {}
                Ok(o) if o.status.code() == Some(1) => {
                    let text = String::from_utf8_lossy(&o.stdout);
                    let first = text.lines().find(|l| l.starts_with("# C")).unwrap_or("").to_string();
                    agg.corpus_failures.push((file.display().to_string(), first));
                }
                _ => agg.harness_errors.push((0, format!("corpus replay {} could not run", file.display()))),
            }
        }
    }
    finish(prop, tier, base_seed, agg, started)
}

fn worker_loop(prop: &str, first_seed: u64, runs: u64, per_seed: Duration, next: Arc<AtomicU64>, stop: Arc<AtomicBool>, tx: mpsc::Sender<(u64, Result<Value, String>)>) {
    let spawn = || {
        let mut child = Command::new(exe()).arg("worker").arg(prop).stdin(Stdio::piped()).stdout(Stdio::piped()).stderr(if std::env::var("VERIF_WORKER_STDERR").is_ok() { Stdio::inherit() } else { Stdio::null() }).spawn().expect("spawn worker");
        let stdout = child.stdout.take().unwrap();
        let (ltx, lrx) = mpsc::channel::<String>();
        std::thread::spawn(move || {
            for line in BufReader::new(stdout).lines().map_while(Result::ok) {
                if ltx.send(line).is_err() {
                    break;
                }
            }
        });
        (child, lrx)
    };
    let (mut child, mut lines) = spawn();
    loop {
        if stop.load(Ordering::SeqCst) {
            break;
        }
        let i = next.fetch_add(1, Ordering::SeqCst);
        if i >= runs {
            break;
        }
        let seed = first_seed + i;
        let sent = child.stdin.as_mut().map(|s| writeln!(s, "{seed}").and_then(|_| s.flush())).map(|r| r.is_ok()).unwrap_or(false);
        let reply = if sent { lines.recv_timeout(per_seed).map_err(|e| e == mpsc::RecvTimeoutError::Timeout) } else { Err(false) };
        match reply {
            Ok(line) => match serde_json::from_str::<Value>(&line) {
                Ok(v) => {
                    let _ = tx.send((seed, Ok(v)));
                }
                Err(e) => {
                    let _ = tx.send((seed, Err(format!("bad worker output: {e}: {}", line.chars().take(200).collect::<String>()))));
                }
            },
            Err(timed_out) => {
                let _ = child.kill();
                let _ = child.wait();
                let (c, l) = spawn();
                child = c;
                lines = l;
                if !timed_out {
                    let _ = tx.send((seed, Err("worker died (abort/crash)".to_string())));
                    continue;
                }
                // The watchdog reads the real clock, the only thing in a check that does: a run is
                // deterministic, so a genuine spin or deadlock never returns on a second attempt either,
                // while a stalled machine (every worker timing out at once) does. The seed is run again in the
                // fresh worker with four times the allowance and only a second silence is a hang.
                let sent = child.stdin.as_mut().map(|s| writeln!(s, "{seed}").and_then(|_| s.flush())).map(|r| r.is_ok()).unwrap_or(false);
                match if sent { lines.recv_timeout(per_seed * 4).ok() } else { None } {
                    Some(line) => {
                        let _ = tx.send((seed, Err("slow".to_string())));
                        match serde_json::from_str::<Value>(&line) {
                            Ok(v) => {
                                let _ = tx.send((seed, Ok(v)));
                            }
                            Err(e) => {
                                let _ = tx.send((seed, Err(format!("bad worker output: {e}: {}", line.chars().take(200).collect::<String>()))));
                            }
                        }
                    }
                    None => {
                        let _ = child.kill();
                        let _ = child.wait();
                        let _ = tx.send((seed, Err("hang".to_string())));
                        let (c, l) = spawn();
                        child = c;
                        lines = l;
                    }
                }
            }
        }
    }
    drop(child.stdin.take());
    let _ = child.kill();
    let _ = child.wait();
}

fn finish(prop: &str, tier: &str, base_seed: u64, agg: Agg, started: Instant) -> i32 {
    let root = verif_root();
    let known = load_known();
    let mut exit = 0;
    // ---- violations: group by (oracle, tag)
    let mut groups: BTreeMap<(String, String), Vec<(u64, Value)>> = BTreeMap::new();
    for (seed, v) in &agg.violations {
        if v["prop"].as_str() != Some(prop) {
            continue;
        }
        groups.entry((v["oracle"].as_str().unwrap_or("").to_string(), v["tag"].as_str().unwrap_or("").to_string())).or_default().push((*seed, v.clone()));
    }
    let mut known_lines = Vec::new();
    let mut known_hits: BTreeMap<String, usize> = BTreeMap::new();
    let mut violation_lines = Vec::new();
    let mut reported = 0;
    for ((oracle, tag), items) in &groups {
        let (seed, first) = &items[0];
        if let Some(f) = known.matches(prop, first) {
            let what = f["what"].as_str().unwrap_or("").to_string();
            *known_hits.entry(what).or_insert(0) += items.len();
            continue;
        }
        if reported >= 4 {
            violation_lines.push(format!("# further violation class not minimised: oracle={oracle} tag={tag} first_seed={seed} count={}", items.len()));
            exit = 1;
            continue;
        }
        reported += 1;
        // minimise in a fresh process; it re-verifies the replay before reporting
        let replay = replay_dir().join(format!("{prop}-{seed}-{}.json", sanitize(&format!("{oracle}-{tag}"))));
        let _ = std::fs::create_dir_all(replay_dir());
        let status = Command::new(exe()).arg("minimize").arg(prop).arg(seed.to_string()).arg(oracle).arg(tag).arg(&replay).stderr(Stdio::inherit()).stdout(Stdio::inherit()).status();
        let ok = status.map(|s| s.success()).unwrap_or(false);
        println!("# violation: oracle={oracle} tag={tag} seeds={} first_seed={seed}: {}", items.len(), first["detail"].as_str().unwrap_or(""));
        if ok {
            violation_lines.push(format!("VIOLATION property={prop} replay={}", replay.display()));
        } else {
            // could not be re-verified by replay: still a violation, the unminimised case is the replay
            let _ = Command::new(exe()).arg("dump-case").arg(prop).arg(seed.to_string()).arg(&replay).status();
            violation_lines.push(format!("VIOLATION property={prop} replay={}", replay.display()));
        }
        exit = 1;
    }
    for seed in &agg.hangs {
        let replay = replay_dir().join(format!("{prop}-{seed}-hang.json"));
        let _ = std::fs::create_dir_all(replay_dir());
        let _ = Command::new(exe()).arg("dump-case").arg(prop).arg(seed.to_string()).arg(&replay).status();
        let fake = json!({"oracle": "bounded_liveness", "tag": "hang"});
        if let Some(f) = known.matches(prop, &fake) {
            known_lines.push(format!("KNOWN-FINDING: property={prop} {} [seed {seed} never returned]", f["what"].as_str().unwrap_or("")));
        } else {
            println!("# seed {seed} never returned (synchronous spin or deadlock): worker killed by the watchdog");
            violation_lines.push(format!("VIOLATION property={prop} replay={}", replay.display()));
            exit = 1;
        }
    }
    for (file, what) in &agg.corpus_failures {
        println!("# a recorded history fails again: {what}");
        violation_lines.push(format!("VIOLATION property={prop} replay={file}"));
        exit = 1;
    }
    for (what, hits) in &known_hits {
        known_lines.push(format!("KNOWN-FINDING: property={prop} {what} [observed {hits} times in this run]"));
    }
    known_lines.sort();
    known_lines.dedup();
    for l in &known_lines {
        println!("{l}");
    }
    for l in &violation_lines {
        println!("{l}");
    }
    if !agg.harness_errors.is_empty() {
        for (seed, e) in agg.harness_errors.iter().take(5) {
            eprintln!("harness error at seed {seed}: {e}");
        }
        if exit == 0 {
            exit = 2;
        }
    }
    // ---- evidence
    let wall = started.elapsed().as_secs_f64();
    let level = if prop == "C04" { "fault_enumeration" } else { "exploration" };
    let evidence = json!({
        "property_id": prop,
        "tier": if tier == "thorough" { "thorough" } else { "quick" },
        "seed": base_seed,
        "level": level,
        "wall_s": wall,
        "violations": violation_lines.iter().filter(|l| l.starts_with("VIOLATION")).count(),
        "coverage": {
            "evaluations": agg.runs,
            "distinct_nontrivial": agg.nontrivial_shapes.len(),
            "rule": rule_text(prop),
            "samples": agg.samples,
            "runs_nontrivial": agg.nontrivial,
            "distinct_shapes": agg.shapes.len(),
            "distinct_schedules": agg.trace_hashes.len(),
            "distinct_model_states": agg.states.len(),
            "scheduler_steps": agg.steps,
            "steps_with_a_real_choice": agg.multi_choice_steps,
            "simulated_seconds": agg.sim_micros as f64 / 1e6,
            "runs_per_hour": if wall > 0.0 { agg.runs as f64 / wall * 3600.0 } else { 0.0 },
            "operations": agg.ops,
            "operations_acknowledged": agg.ops_ok,
            "probes": agg.probes,
            "faults_fired": agg.faults,
            "file_operations": agg.fs_ops,
            "polls_compared": agg.polls_compared,
            "messages_compared": agg.messages_compared,
            "restarts": agg.restarts,
            "extra": agg.extra,
            "hangs": agg.hangs.len(),
            "known_findings_reconfirmed": known_lines,
            "components": components(),
            "exhaustive": false
        },
        "assumptions": assumptions(prop),
    });
    let _ = std::fs::create_dir_all(root.join("evidence"));
    let path = root.join("evidence").join(format!("{prop}.json"));
    if let Err(e) = std::fs::write(&path, serde_json::to_string_pretty(&evidence).unwrap()) {
        eprintln!("cannot write evidence {path:?}: {e}");
        if exit == 0 {
            exit = 2;
        }
    }
    println!(
        "# {prop} {tier}: {} runs ({} non-trivial, {} distinct non-trivial shapes) in {:.1}s, {} scheduler steps, exit {exit}",
        agg.runs,
        agg.nontrivial,
        agg.nontrivial_shapes.len(),
        wall,
        agg.steps
    );
    if agg.runs == 0 && exit == 0 {
        exit = 2;
    }
    exit
}

pub fn sanitize(s: &str) -> String {
    s.chars().map(|c| if c.is_ascii_alphanumeric() || c == '-' || c == '_' { c } else { '_' }).take(80).collect()
}

fn components() -> Value {
    json!({
        "real": ["server crate: System, streams/topics/partitions/segments, log+index readers/writers, batch accumulator, message cache, deduplicator, FileState journal + SystemState replay, permissioner, users/PATs, client manager, consumer groups, binary command decoding + all binary handlers, background executors' execute()", "iggy SDK: request encoders, response decoders, TcpClient framing/state machine; in runs of the HTTP arm (see probes http_root_login / request_via_http) also HttpClient (paths, JSON, token handling); in C20 IggyClient/IggyProducer/IggyConsumer", "server HTTP API in runs of the HTTP arm: the axum routers, extractors, handlers, JWT manager and middleware, called in-process (no socket)", "std::fs system calls on tmpfs"],
        "stubbed": ["tokio scheduler / blocking pool / tokio::fs (replaced by the seeded single-threaded executor and an inline file shim with fault and mutation hooks)", "TCP (in-memory duplex pipe with seeded capacity)", "process allocator (the server's mimalloc is switched off through its own `disable-mimalloc` feature; the system allocator runs behind a probe that notes the largest single request)", "interval senders of background jobs (the simulator calls the executors)", "TLS/QUIC listeners not run; HTTP has no listener (requests are handed to the router in-process; CORS, metrics and the expired-token cleaner task are left out)", "lock acquisitions of IggySharedMut / SharedSystem are seeded scheduling points (hook H10)", "OS randomness left real (never branches control flow)"]
    })
}

fn rule_text(prop: &str) -> String {
    format!(
        "each evaluation is one simulated run: VERIF_SEED derives a storage configuration (swarm), scheduler policy, yield probability, pipe capacity and an operation mix; operations are generated against the model state and executed through the real SDK client and binary handlers. A run is non-trivial for {prop} when it contains the property's trigger (see scen.rs:nontrivial); distinct = distinct (configuration class, scheduler policy, operation-kind count buckets) signatures among the non-trivial runs."
    )
}

fn assumptions(prop: &str) -> Vec<String> {
    let mut a = vec![
        "sampling, not enumeration: a clean batch is evidence, not proof".to_string(),
        "process-death crash model (completed writes survive); power loss is not modelled".to_string(),
        "the simulator's file shim models tokio::fs semantics (<= 2 MiB per write call) inline".to_string(),
    ];
    if prop == "C02" {
        a.push("polls are judged at quiescent points (background work settled)".into());
    }
    a
}

/// Determinism proof: every seed is executed twice, in two different fresh processes (spread over worker
/// processes at two different worker counts); the per-seed digests (trace hash, steps, simulated time,
/// distinct states, violations) must be identical. Exit 0 = identical, 2 = the simulator is not
/// deterministic (a harness error, never a verdict about a property).
pub fn determinism_proof(arg: &str) -> i32 {
    let per_prop: u64 = arg.parse().unwrap_or(40);
    let props = ["C01", "C02", "C03", "C05", "C06", "C07", "C08", "C09", "C10", "C11", "C12", "C13", "C14", "C15", "C16", "C17", "C18", "C19", "C20", "C04"];
    let run = |prop: &str, block: u64, n: u64| -> String {
        let out = Command::new(exe()).arg("determinism").arg(prop).arg(n.to_string()).env("VERIF_SEED", block.to_string()).env("VERIF_MAX_IMAGES", "60").stderr(Stdio::null()).output();
        out.map(|o| String::from_utf8_lossy(&o.stdout).to_string()).unwrap_or_default()
    };
    let mut jobs: Vec<(String, u64, u64)> = Vec::new();
    for (i, prop) in props.iter().enumerate() {
        let n = if *prop == "C04" { (per_prop / 10).max(2) } else { per_prop };
        // split every property's seeds over several processes
        for part in 0..4u64 {
            jobs.push((prop.to_string(), 7000 + i as u64 * 10 + part, (n / 4).max(1)));
        }
    }
    let mut seeds = 0u64;
    let mut mismatches = Vec::new();
    for (round, workers) in [(0usize, 16usize), (1, 5)] {
        let _ = round;
        let _ = workers;
    }
    // round A with 16 parallel processes, round B with 5
    let execute = |workers: usize| -> Vec<String> {
        let jobs = jobs.clone();
        let results = Arc::new(std::sync::Mutex::new(vec![String::new(); jobs.len()]));
        let next = Arc::new(AtomicU64::new(0));
        let mut handles = Vec::new();
        for _ in 0..workers {
            let jobs = jobs.clone();
            let results = results.clone();
            let next = next.clone();
            handles.push(std::thread::spawn(move || loop {
                let i = next.fetch_add(1, Ordering::SeqCst) as usize;
                if i >= jobs.len() {
                    break;
                }
                let (prop, block, n) = &jobs[i];
                let out = Command::new(exe()).arg("determinism").arg(prop).arg(n.to_string()).env("VERIF_SEED", block.to_string()).env("VERIF_MAX_IMAGES", "60").stderr(Stdio::null()).output();
                let text = out.map(|o| String::from_utf8_lossy(&o.stdout).to_string()).unwrap_or_default();
                results.lock().unwrap()[i] = text;
            }));
        }
        for h in handles {
            let _ = h.join();
        }
        let r = results.lock().unwrap().clone();
        r
    };
    let _ = &run;
    let a = execute(16);
    let b = execute(5);
    for (i, (x, y)) in a.iter().zip(b.iter()).enumerate() {
        seeds += x.lines().count() as u64;
        if x != y || x.is_empty() {
            for (lx, ly) in x.lines().zip(y.lines()) {
                if lx != ly {
                    mismatches.push(format!("{} block {}: {lx}  !=  {ly}", jobs[i].0, jobs[i].1));
                }
            }
            if x.is_empty() {
                mismatches.push(format!("{} block {}: no output", jobs[i].0, jobs[i].1));
            }
        }
    }
    println!("# determinism proof: {seeds} seeds over {} properties, each executed twice in different processes (16 and 5 parallel workers): {} mismatches", props.len(), mismatches.len());
    for m in mismatches.iter().take(10) {
        println!("# MISMATCH {m}");
    }
    if mismatches.is_empty() && seeds > 0 {
        0
    } else {
        2
    }
}
