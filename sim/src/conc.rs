//! C12: concurrent producers, consumers, flusher, saver and evictor on one partition under seeded
//! schedules; the verdict is a set of predicates over the recorded history.

use crate::gen::Case;
use crate::harness::Violation;
use crate::ops::{IdRef, MsgSpec};
use crate::rng::Rng;
use crate::rt::Sim;
use crate::scen::{scratch_dir, RunOutput};
use crate::world::{Job, StopKind, World};
use iggy::client::*;
use iggy::compression::compression_algorithm::CompressionAlgorithm;
use iggy::consumer::Consumer;
use iggy::messages::poll_messages::PollingStrategy;
use iggy::messages::send_messages::{Message, Partitioning};
use iggy::utils::expiry::IggyExpiry;
use iggy::utils::topic_size::MaxTopicSize;
use std::cell::RefCell;
use std::collections::BTreeMap;
use std::rc::Rc;

#[derive(Debug, Clone)]
struct SendEvent {
    producer: usize,
    invoke: u64,
    ret: u64,
    ids: Vec<u128>,
    ok: bool,
}

#[derive(Debug, Clone)]
struct PollEvent {
    poller: usize,
    invoke: u64,
    ret: u64,
    start: u64,
    count: u32,
    kind: &'static str,
    /// (offset, id, payload ok)
    got: Option<Vec<(u64, u128, Vec<u8>)>>,
}

#[derive(Default)]
struct History {
    sends: Vec<SendEvent>,
    polls: Vec<PollEvent>,
    errors: Vec<String>,
}

pub fn run_conc(case: &Case) -> RunOutput {
    let mut out = RunOutput { seed: case.seed, prop: case.prop.clone(), ..Default::default() };
    let dir = scratch_dir(case.seed);
    let _ = std::fs::remove_dir_all(&dir);
    std::fs::create_dir_all(&dir).expect("scratch dir");
    crate::determinism::reset_hash_seeds();
    let sim = Sim::new(case.sim_config());
    let world = World::new(sim.clone(), dir.clone(), case.knobs.clone());
    let history: Rc<RefCell<History>> = Rc::new(RefCell::new(History::default()));
    let seed = case.seed;
    let w = world.clone();
    let hist = history.clone();
    let no_wait = case.knobs.no_wait;
    let result = sim.block_on(async move {
        let mut rng = Rng::substream(seed, "conc");
        if w.start().await.is_err() {
            return Err("first start failed".to_string());
        }
        let admin = w.root_client().await.map_err(|e| format!("admin: {e:?}"))?;
        let s = IdRef::Num(1).to_identifier();
        let t = IdRef::Num(1).to_identifier();
        admin.create_stream("conc", Some(1)).await.map_err(|e| format!("{e:?}"))?;
        admin.create_topic(&s, "conc", 1, CompressionAlgorithm::None, None, Some(1), IggyExpiry::NeverExpire, MaxTopicSize::Unlimited).await.map_err(|e| format!("{e:?}"))?;
        let producers = 2 + rng.usize_below(3);
        let pollers = 1 + rng.usize_below(3);
        let batches = 2 + rng.usize_below(8);
        let mut done = Vec::new();
        let high_water = Rc::new(std::cell::Cell::new(0u64));
        for p in 0..producers {
            let (tx, rx) = tokio::sync::oneshot::channel::<()>();
            done.push(rx);
            let w2 = w.clone();
            let hist = hist.clone();
            let mut prng = Rng::substream(seed, &format!("producer{p}"));
            let hw = high_water.clone();
            w.sim.spawn(0, "producer", async move {
                let Ok(client) = w2.root_client().await else {
                    hist.borrow_mut().errors.push(format!("producer {p} cannot connect"));
                    let _ = tx.send(());
                    return;
                };
                let s = IdRef::Num(1).to_identifier();
                let t = IdRef::Num(1).to_identifier();
                let mut next = 1_000_000u128 * (p as u128 + 1);
                for _ in 0..batches {
                    let k = *prng.pick(&[1usize, 1, 2, 3, 5, 8, 20]);
                    let specs: Vec<MsgSpec> = (0..k)
                        .map(|_| {
                            next += 1;
                            MsgSpec { id: next, salt: p as u32, len: *prng.pick(&[5u32, 20, 60, 150]), headers: 0 }
                        })
                        .collect();
                    let mut messages: Vec<Message> = specs.iter().map(|m| m.to_message()).collect();
                    let invoke = w2.sim.steps();
                    let result = client.send_messages(&s, &t, &Partitioning::partition_id(1), &mut messages).await;
                    let ret = w2.sim.steps();
                    if result.is_ok() {
                        hw.set(hw.get() + k as u64);
                    }
                    hist.borrow_mut().sends.push(SendEvent { producer: p, invoke, ret, ids: specs.iter().map(|m| m.id).collect(), ok: result.is_ok() });
                    if prng.chance(0.3) {
                        tokio::time::sleep(std::time::Duration::from_micros(1 + prng.below(300))).await;
                    }
                }
                let _ = tx.send(());
            });
        }
        for q in 0..pollers {
            let (tx, rx) = tokio::sync::oneshot::channel::<()>();
            done.push(rx);
            let w2 = w.clone();
            let hist = hist.clone();
            let mut prng = Rng::substream(seed, &format!("poller{q}"));
            let hw = high_water.clone();
            let polls = 3 + prng.usize_below(12);
            w.sim.spawn(0, "poller", async move {
                let Ok(client) = w2.root_client().await else {
                    let _ = tx.send(());
                    return;
                };
                let s = IdRef::Num(1).to_identifier();
                let t = IdRef::Num(1).to_identifier();
                for _ in 0..polls {
                    let seen = hw.get();
                    let (kind, start, strategy): (&'static str, u64, PollingStrategy) = match prng.below(6) {
                        0 => ("first", 0, PollingStrategy::first()),
                        1 => ("last", 0, PollingStrategy::last()),
                        _ => {
                            let start = prng.below(seen + 3);
                            ("offset", start, PollingStrategy::offset(start))
                        }
                    };
                    let count = *prng.pick(&[1u32, 2, 5, 10, 50, 1000]);
                    let invoke = w2.sim.steps();
                    let result = client.poll_messages(&s, &t, Some(1), &Consumer::new(IdRef::Num(10 + q as u32).to_identifier()), &strategy, count, false).await;
                    let ret = w2.sim.steps();
                    let got = result.ok().map(|p| p.messages.iter().map(|m| (m.offset, m.id, m.payload.to_vec())).collect());
                    hist.borrow_mut().polls.push(PollEvent { poller: q, invoke, ret, start, count, kind, got });
                    if prng.chance(0.4) {
                        tokio::time::sleep(std::time::Duration::from_micros(1 + prng.below(300))).await;
                    }
                }
                let _ = tx.send(());
            });
        }
        // flusher and background saver
        {
            let (tx, rx) = tokio::sync::oneshot::channel::<()>();
            done.push(rx);
            let w2 = w.clone();
            let mut prng = Rng::substream(seed, "flusher");
            let rounds = prng.usize_below(6);
            w.sim.spawn(0, "flusher", async move {
                if let Ok(client) = w2.root_client().await {
                    let s = IdRef::Num(1).to_identifier();
                    let t = IdRef::Num(1).to_identifier();
                    for _ in 0..rounds {
                        tokio::time::sleep(std::time::Duration::from_micros(1 + prng.below(400))).await;
                        if prng.chance(0.5) {
                            let _ = client.flush_unsaved_buffer(&s, &t, 1, prng.chance(0.5)).await;
                        } else {
                            w2.run_job(Job::Save).await;
                        }
                    }
                }
                let _ = tx.send(());
            });
        }
        for rx in done {
            let _ = rx.await;
        }
        w.sim.settle().await;
        // quiescent final content
        let final_read = admin.poll_messages(&s, &t, Some(1), &Consumer::default(), &PollingStrategy::offset(0), 1_000_000, false).await;
        let final_log: Vec<(u64, u128, Vec<u8>)> = match final_read {
            Ok(p) => p.messages.iter().map(|m| (m.offset, m.id, m.payload.to_vec())).collect(),
            Err(e) => return Err(format!("final read failed: {e:?}")),
        };
        drop(admin);
        let _ = w.stop(StopKind::GracefulDrained).await;
        Ok((final_log, producers, pollers))
    });
    out.steps = sim.steps();
    if sim.inner.deferred_writes.get() > 0 {
        out.extra.insert("file_writes_completed_later".into(), sim.inner.deferred_writes.get());
    }
    out.sim_micros = sim.inner.final_sim_micros.get();
    out.trace_hash = format!("{:016x}", sim.trace_hash());
    out.multi_choice_steps = sim.inner.multi_choice_steps.get();
    out.max_runnable = sim.inner.max_runnable.get();
    out.yields = sim.inner.yields.get();
    out.connections = sim.inner.connections.get();
    for p in sim.take_panics() {
        out.violations.push(Violation { prop: "C12", oracle: "no_panic", tag: crate::harness::panic_tag(&p), detail: p.chars().take(200).collect(), op_index: 0 });
    }
    let h = history.borrow();
    match result {
        Ok(Ok((final_log, producers, pollers))) => {
            judge(&h, &final_log, no_wait, &mut out.violations);
            out.extra.insert("producers".into(), producers as u64);
            out.extra.insert("pollers".into(), pollers as u64);
            out.extra.insert("sends".into(), h.sends.len() as u64);
            out.extra.insert("polls".into(), h.polls.len() as u64);
            out.extra.insert("final_messages".into(), final_log.len() as u64);
            let overlapping = h.polls.iter().filter(|p| h.sends.iter().any(|s| s.invoke < p.ret && p.invoke < s.ret)).count();
            out.extra.insert("polls_overlapping_a_send".into(), overlapping as u64);
            let concurrent_sends = h.sends.iter().filter(|a| h.sends.iter().any(|b| b.producer != a.producer && b.invoke < a.ret && a.invoke < b.ret)).count();
            out.extra.insert("sends_overlapping_another_send".into(), concurrent_sends as u64);
            out.nontrivial = overlapping > 0 || concurrent_sends > 0;
            out.shape = format!(
                "save{}-seg{}-cache{}-nw{}-fs{}|{}|y{}|p{}q{}|s{}|ov{}",
                case.knobs.messages_required_to_save,
                case.knobs.segment_size,
                if case.knobs.cache_enabled { case.knobs.cache_size } else { 0 },
                case.knobs.no_wait as u8,
                case.knobs.partition_fsync as u8,
                case.policy,
                case.yield_prob,
                producers,
                pollers,
                h.sends.len() / 5,
                overlapping.min(9)
            );
        }
        Ok(Err(e)) => out.harness_error = Some(e),
        Err(crate::rt::SimStop::MainPanicked(message)) => crate::scen::main_panicked("C12", &message, &mut out),
        Err(stop) => out.violations.push(Violation { prop: "C12", oracle: "bounded_liveness", tag: "run_never_ends".into(), detail: format!("{stop:?}"), op_index: 0 }),
    }
    for e in &h.errors {
        out.harness_error = Some(e.clone());
    }
    let _ = std::fs::remove_dir_all(&dir);
    out
}

fn judge(h: &History, final_log: &[(u64, u128, Vec<u8>)], no_wait: bool, violations: &mut Vec<Violation>) {
    // the confirmation mode is part of the tag: what is a listed finding under no-wait must still be
    // reported when it shows up under wait confirmation
    let mode = if no_wait { "no_wait" } else { "wait" };
    let mut push = |oracle: &'static str, tag: &str, detail: String| {
        if violations.len() < 30 {
            violations.push(Violation { prop: "C12", oracle, tag: format!("{tag}@{mode}"), detail, op_index: 0 });
        }
    };
    // (1) the final content: offsets unique and gap-free from 0; an interleaving of the sent batches with
    // each batch contiguous, each producer's batches in its order; nothing lost, nothing twice
    for (i, (offset, _, _)) in final_log.iter().enumerate() {
        if *offset != i as u64 {
            push("final_log_gap_free", "gap_or_duplicate_offset", format!("position {i} of the final log holds offset {offset}"));
            break;
        }
    }
    let position: BTreeMap<u128, u64> = final_log.iter().map(|(o, id, _)| (*id, *o)).collect();
    if position.len() != final_log.len() {
        push("nothing_twice", "message_stored_twice", format!("{} messages stored, {} distinct ids", final_log.len(), position.len()));
    }
    let mut last_of_producer: BTreeMap<usize, u64> = BTreeMap::new();
    let mut by_producer: Vec<&SendEvent> = h.sends.iter().collect();
    by_producer.sort_by_key(|s| (s.producer, s.invoke));
    for send in by_producer {
        let offsets: Vec<Option<u64>> = send.ids.iter().map(|id| position.get(id).copied()).collect();
        if !send.ok {
            if offsets.iter().any(|o| o.is_some()) {
                push("rejected_send_stores_nothing", "stored_after_error", format!("a send of producer {} failed but its messages are in the log at {offsets:?}", send.producer));
            }
            continue;
        }
        if offsets.iter().any(|o| o.is_none()) {
            push("nothing_lost", "acknowledged_message_missing", format!("producer {} was acknowledged ids {:?}, the final log holds them at {offsets:?}", send.producer, send.ids));
            continue;
        }
        let offsets: Vec<u64> = offsets.into_iter().flatten().collect();
        if offsets.windows(2).any(|w| w[1] != w[0] + 1) {
            push("batch_contiguous", "batch_interleaved_or_reordered", format!("a batch of producer {} sits at offsets {offsets:?}", send.producer));
        }
        if let Some(previous) = last_of_producer.get(&send.producer) {
            if offsets[0] <= *previous {
                push("producer_order", "batches_of_one_producer_reordered", format!("producer {}: a later batch starts at {} but an earlier one ended at {previous}", send.producer, offsets[0]));
            }
        }
        last_of_producer.insert(send.producer, *offsets.last().unwrap());
    }
    let sent: std::collections::BTreeSet<u128> = h.sends.iter().flat_map(|s| s.ids.iter().copied()).collect();
    for (offset, id, _) in final_log {
        if !sent.contains(id) {
            push("nothing_foreign", "unknown_message_in_log", format!("offset {offset} holds id {id} that nobody sent"));
        }
    }
    // batch membership for (3)
    let mut batch_of: BTreeMap<u64, (u64, u64)> = BTreeMap::new();
    for send in h.sends.iter().filter(|s| s.ok) {
        let offsets: Vec<u64> = send.ids.iter().filter_map(|id| position.get(id).copied()).collect();
        if let (Some(lo), Some(hi)) = (offsets.iter().min(), offsets.iter().max()) {
            for o in &offsets {
                batch_of.insert(*o, (*lo, *hi));
            }
        }
    }
    // (2)-(4) every poll
    for poll in &h.polls {
        let Some(got) = &poll.got else {
            push("poll_succeeds", "poll_error", format!("poller {} {}({}, {}) failed", poll.poller, poll.kind, poll.start, poll.count));
            continue;
        };
        let offsets: Vec<u64> = got.iter().map(|g| g.0).collect();
        if offsets.windows(2).any(|w| w[1] != w[0] + 1) {
            push("poll_contiguous", "holes_or_disorder", format!("poller {} {}({}, {}) returned {}", poll.poller, poll.kind, poll.start, poll.count, crate::harness::brief(&offsets)));
            continue;
        }
        if poll.kind == "offset" {
            if let Some(first) = offsets.first() {
                if *first != poll.start {
                    push("poll_starts_at_request", "wrong_start", format!("poll from offset {} returned a run starting at {first}", poll.start));
                }
            }
        }
        if got.len() > poll.count as usize {
            push("poll_count", "more_than_requested", format!("poll count {} returned {} messages", poll.count, got.len()));
        }
        for (offset, id, payload) in got {
            match final_log.get(*offset as usize) {
                Some((_, fid, fpayload)) if fid == id && fpayload == payload => {}
                Some((_, fid, _)) => push("poll_equals_final_log", "torn_or_foreign_message", format!("poll returned offset {offset} with id {id}, the log holds id {fid} there (or another payload)")),
                None => push("poll_equals_final_log", "message_beyond_final_log", format!("poll returned offset {offset} (id {id}) which the final log does not have")),
            }
        }
        // (3) a batch may be cut by the poll's own count at its end, never at its start or in the middle
        if let (Some(first), Some(last)) = (offsets.first(), offsets.last()) {
            if let Some((lo, _)) = batch_of.get(first) {
                let requested_start = if poll.kind == "offset" { poll.start } else { *first };
                if *lo < *first && *lo >= requested_start {
                    push("batch_atomic_visibility", "batch_cut_at_its_start", format!("poll {}({}, {}) starts at {first} inside the batch beginning at {lo}", poll.kind, poll.start, poll.count));
                }
            }
            if let Some((_, hi)) = batch_of.get(last) {
                let stopped_by_count = got.len() as u32 >= poll.count;
                if *hi > *last && !stopped_by_count {
                    push("batch_atomic_visibility", "partial_batch_visible", format!("poll {}({}, {}) ends at {last} inside the batch ending at {hi} although {} more were requested", poll.kind, poll.start, poll.count, poll.count as usize - got.len()));
                }
            }
        }
        // (4) acknowledged under wait confirmation before the poll was invoked => visible in the range
        if !no_wait && poll.kind == "offset" {
            for send in h.sends.iter().filter(|s| s.ok && s.ret < poll.invoke) {
                for id in &send.ids {
                    if let Some(o) = position.get(id) {
                        let in_range = *o >= poll.start && *o < poll.start + poll.count as u64;
                        if in_range && !offsets.contains(o) {
                            push("acknowledged_is_visible", "acknowledged_message_not_returned", format!("offset {o} was acknowledged at step {} but a poll({}, {}) invoked at step {} returned {}", send.ret, poll.start, poll.count, poll.invoke, crate::harness::brief(&offsets)));
                            break;
                        }
                    }
                }
            }
        }
    }
}
