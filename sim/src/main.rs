mod determinism;
mod rng;
mod rt;
mod world;

use iggy::client::{MessageClient, StreamClient, TopicClient};
use iggy::compression::compression_algorithm::CompressionAlgorithm;
use iggy::consumer::Consumer;
use iggy::identifier::Identifier;
use iggy::messages::poll_messages::PollingStrategy;
use iggy::messages::send_messages::{Message, Partitioning};
use iggy::utils::expiry::IggyExpiry;
use iggy::utils::topic_size::MaxTopicSize;
use rt::{Sim, SimConfig};
use world::{Knobs, StopKind, World};

fn main() {
    determinism::init_process();
    rt::install_panic_hook();
    let seed: u64 = std::env::args().nth(1).and_then(|s| s.parse().ok()).unwrap_or(1);
    let dir = std::path::PathBuf::from(format!("/dev/shm/iggy-sim-{}-{}", std::process::id(), seed));
    let _ = std::fs::remove_dir_all(&dir);
    std::fs::create_dir_all(&dir).unwrap();
    let sim = Sim::new(SimConfig::new(seed));
    let world = World::new(sim.clone(), dir.clone(), Knobs { messages_required_to_save: 3, ..Default::default() });
    let w = world.clone();
    let started = std::time::Instant::now();
    let out = sim.block_on(async move {
        w.start().await.unwrap();
        let c = w.root_client().await.unwrap();
        c.create_stream("s1", Some(1)).await.unwrap();
        c.create_topic(&Identifier::numeric(1).unwrap(), "t1", 2, CompressionAlgorithm::None, None, Some(1), IggyExpiry::NeverExpire, MaxTopicSize::Unlimited).await.unwrap();
        for i in 0..4u32 {
            let mut msgs: Vec<Message> = (0..3).map(|j| Message::new(Some((i * 10 + j + 1) as u128), format!("m{i}-{j}").into(), None)).collect();
            c.send_messages(&Identifier::numeric(1).unwrap(), &Identifier::numeric(1).unwrap(), &Partitioning::partition_id(1), &mut msgs).await.unwrap();
        }
        let p = c.poll_messages(&Identifier::numeric(1).unwrap(), &Identifier::numeric(1).unwrap(), Some(1), &Consumer::default(), &PollingStrategy::offset(0), 100, false).await.unwrap();
        println!("polled {} current {}", p.messages.len(), p.current_offset);
        drop(c);
        w.restart(StopKind::GracefulDrained).await.unwrap();
        let c = w.root_client().await.unwrap();
        let p = c.poll_messages(&Identifier::numeric(1).unwrap(), &Identifier::numeric(1).unwrap(), Some(1), &Consumer::default(), &PollingStrategy::offset(0), 100, false).await.unwrap();
        println!("after restart polled {} current {}", p.messages.len(), p.current_offset);
        p.messages.len()
    });
    println!("out={out:?} steps={} hash={:x} panics={:?} wall={:?}", sim.steps(), sim.trace_hash(), sim.panics(), started.elapsed());
    let _ = std::fs::remove_dir_all(&dir);
}
