mod allocp;
mod conc;
mod crash;
mod determinism;
mod driver;
mod gen;
mod gen_auth;
mod gen_cat;
mod gen_grp;
mod harness;
mod jrnl;
mod harness_auth;
mod harness_cat;
mod harness_stats;
mod harness_wire;
mod rawconn;
mod harness_grp;
mod harness_ret;
mod minimize;
mod model;
mod ops;
mod profiles;
mod rng;
mod rt;
mod scen;
mod sdk;
mod snapshot;
mod world;

use std::io::{BufRead, Write};

#[global_allocator]
static ALLOCATOR: allocp::Probe = allocp::Probe;

fn usage() -> i32 {
    eprintln!("usage: sim check <Cxx> <quick|thorough> | run <Cxx> <seed> | replay <file> | worker <Cxx> | minimize <Cxx> <seed> <oracle> <tag> <out> | dump-case <Cxx> <seed> <out> | determinism <Cxx> <n>");
    2
}

fn compact(out: &scen::RunOutput) -> serde_json::Value {
    let mut v = serde_json::to_value(out).unwrap();
    let ops_sample: Vec<String> = out.ops.iter().take(40).map(|o| {
        let s = format!("{o:?}");
        if s.len() > 160 { format!("{}…", &s[..160]) } else { s }
    }).collect();
    v["ops_sample"] = serde_json::json!(ops_sample);
    v.as_object_mut().unwrap().remove("ops");
    if let Some(a) = v["state_hashes"].as_array_mut() {
        a.truncate(400);
    }
    v
}

fn main() {
    determinism::init_process();
    rt::install_panic_hook();
    let args: Vec<String> = std::env::args().collect();
    let code = match args.get(1).map(|s| s.as_str()) {
        Some("check") if args.len() >= 4 => driver::check(&args[2], &args[3]),
        Some("run") if args.len() >= 4 => {
            let case = profiles::make_case(&args[2], args[3].parse().unwrap_or(1));
            let out = scen::run_case(&case);
            if std::env::var("VERIF_FULL").is_ok() {
                println!("{}", serde_json::to_string_pretty(&out).unwrap());
            } else {
                for v in &out.violations {
                    println!("VIOL {}/{}/{} @op{}: {}", v.prop, v.oracle, v.tag, v.op_index, v.detail);
                }
                println!("seed={} steps={} hash={} ops={} states={} nontrivial={} err={:?} probes={:?}", out.seed, out.steps, out.trace_hash, out.ops.len(), out.distinct_states, out.nontrivial, out.harness_error, out.stats.probes);
            }
            if out.violations.is_empty() { 0 } else { 1 }
        }
        Some("http-smoke") => {
            use iggy::client::{StreamClient, UserClient};
            let case = profiles::make_case("C06", 1);
            let dir = scen::scratch_dir(999_999);
            let _ = std::fs::remove_dir_all(&dir);
            std::fs::create_dir_all(&dir).unwrap();
            let sim = rt::Sim::new(case.sim_config());
            let world = world::World::new(sim.clone(), dir.clone(), case.knobs.clone());
            world.http_enabled.set(true);
            let w = world.clone();
            let r = sim.block_on(async move {
                w.start().await.unwrap();
                let http = iggy::http::client::HttpClient::create(std::sync::Arc::new(iggy::http::config::HttpClientConfig { api_url: "http://sim".into(), retries: 0 })).unwrap();
                println!("login: {:?}", http.login_user("iggy", "iggy").await.map(|i| i.user_id));
                println!("create: {:?}", http.create_stream("via-http", None).await.map(|s| (s.id, s.name)));
                let tcp = w.root_client().await.unwrap();
                println!("tcp sees: {:?}", tcp.get_streams().await.map(|l| l.iter().map(|s| (s.id, s.name.clone())).collect::<Vec<_>>()));
                println!("http sees: {:?}", http.get_streams().await.map(|l| l.iter().map(|s| (s.id, s.name.clone())).collect::<Vec<_>>()));
                println!("logout: {:?}", http.logout_user().await);
                println!("after logout: {:?}", http.get_streams().await.map(|l| l.len()));
                drop(tcp);
                let _ = w.stop(world::StopKind::GracefulDrained).await;
            });
            println!("{:?}", r.is_ok());
            let _ = std::fs::remove_dir_all(&dir);
            0
        }
        Some("worker") if args.len() >= 3 => {
            let stdin = std::io::stdin();
            let stdout = std::io::stdout();
            for line in stdin.lock().lines().map_while(Result::ok) {
                let Ok(seed) = line.trim().parse::<u64>() else { continue };
                let case = profiles::make_case(&args[2], seed);
                let out = scen::run_case(&case);
                let mut lock = stdout.lock();
                let _ = writeln!(lock, "{}", compact(&out));
                let _ = lock.flush();
            }
            0
        }
        Some("minimize") if args.len() >= 7 => {
            if minimize::minimize(&args[2], args[3].parse().unwrap_or(1), &args[4], &args[5], &args[6]) { 0 } else { 1 }
        }
        Some("dump-case") if args.len() >= 5 => {
            let mut case = profiles::make_case(&args[2], args[3].parse().unwrap_or(1));
            case.note = "unminimised case (generated from the seed)".into();
            let text = serde_json::to_string_pretty(&serde_json::json!({"expect": {"property": args[2]}, "case": case})).unwrap();
            if std::fs::write(&args[4], text).is_ok() { 0 } else { 2 }
        }
        Some("replay") if args.len() >= 3 => minimize::replay(&args[2]),
        Some("determinism-proof") => driver::determinism_proof(args.get(2).map(|s| s.as_str()).unwrap_or("40")),
        Some("determinism") if args.len() >= 4 => {
            // prints "seed trace_hash steps violations" per seed; the caller diffs two executions
            let n: u64 = args[3].parse().unwrap_or(10);
            let base: u64 = std::env::var("VERIF_SEED").ok().and_then(|s| s.parse().ok()).unwrap_or(1) * 1_000_000;
            for seed in base..base + n {
                let case = profiles::make_case(&args[2], seed);
                let out = scen::run_case(&case);
                let viol: Vec<String> = out.violations.iter().map(|v| format!("{}/{}/{}@{}", v.prop, v.oracle, v.tag, v.op_index)).collect();
                println!("{seed} {} {} {} {} {:?}", out.trace_hash, out.steps, out.sim_micros, out.distinct_states, viol);
            }
            0
        }
        _ => usage(),
    };
    std::process::exit(code);
}
