//! Generation of user, permission, credential and session operations (AUTH family).

use crate::gen::Gen;
use crate::model::Model;
use crate::ops::*;

pub fn draw_perms(g: &mut Gen, model: &Model) -> Option<PermSpec> {
    // every structural corner: no record, global only, stream record without topic table,
    // topic record under a stream record with all flags false, several streams
    if g.rng.chance(0.1) {
        return None;
    }
    let density = *g.rng.pick(&[0.0, 0.1, 0.3, 0.6]);
    let mut global = [false; 10];
    for f in global.iter_mut() {
        *f = g.rng.chance(density);
    }
    let streams: Vec<u32> = model.streams.keys().copied().collect();
    // wide records: several stream records, each with a topic table of several entries (ids need not exist -
    // a record is a value the codecs, the journal and the permissioner have to carry whatever it names)
    if g.rng.chance(if g.cfg.codec_corners { 0.35 } else { 0.12 }) {
        let mut ids: Vec<u32> = streams.clone();
        ids.extend([70u32, 71, 72, 73]);
        let n = 2 + g.rng.usize_below(3);
        let mut out: Vec<(u32, [bool; 6], Option<Vec<(u32, [bool; 4])>>)> = Vec::new();
        for _ in 0..n {
            let sid = *g.rng.pick(&ids);
            if out.iter().any(|x| x.0 == sid) {
                continue;
            }
            let mut f = [false; 6];
            for x in f.iter_mut() {
                *x = g.rng.chance(0.3);
            }
            let k = g.rng.usize_below(5);
            let mut table: Vec<(u32, [bool; 4])> = Vec::new();
            for _ in 0..k {
                let tid = *g.rng.pick(&[1u32, 2, 3, 4, 5, 256, 512, 1000]);
                if table.iter().any(|x| x.0 == tid) {
                    continue;
                }
                let mut tf = [false; 4];
                for x in tf.iter_mut() {
                    *x = g.rng.chance(0.4);
                }
                table.push((tid, tf));
            }
            let table = if table.is_empty() && !g.cfg.codec_corners { None } else if g.rng.chance(0.15) { None } else { Some(table) };
            out.push((sid, f, table));
        }
        if !out.is_empty() {
            return Some(PermSpec { global, streams: Some(out) });
        }
    }
    let spec_streams = if streams.is_empty() || g.rng.chance(0.3) {
        None
    } else {
        let mut out = Vec::new();
        for sid in &streams {
            if !g.rng.chance(0.7) {
                continue;
            }
            let sdensity = *g.rng.pick(&[0.0, 0.0, 0.2, 0.5]);
            let mut f = [false; 6];
            for x in f.iter_mut() {
                *x = g.rng.chance(sdensity);
            }
            let topics: Vec<u32> = model.streams[sid].topics.keys().copied().collect();
            let table = if g.rng.chance(0.4) {
                None
            } else {
                let mut t = Vec::new();
                for tid in &topics {
                    if g.rng.chance(0.6) {
                        let tdensity = *g.rng.pick(&[0.0, 0.3, 0.6]);
                        let mut tf = [false; 4];
                        for x in tf.iter_mut() {
                            *x = g.rng.chance(tdensity);
                        }
                        t.push((*tid, tf));
                    }
                }
                Some(t)
            };
            let table = match table {
                Some(t) if t.is_empty() && !g.cfg.codec_corners => None,
                other => other,
            };
            out.push((*sid, f, table));
        }
        // sometimes a record for a stream that does not exist (yet)
        if g.rng.chance(0.1) {
            out.push((77, [true; 6], None));
        }
        if out.is_empty() && !g.cfg.codec_corners {
            None
        } else {
            Some(out)
        }
    };
    Some(PermSpec { global, streams: spec_streams })
}

/// The record with one grant taken away: a flag of a stream record, a topic record, a global flag, a whole
/// stream record, or everything.
fn demote(g: &mut Gen, mut spec: PermSpec) -> Option<PermSpec> {
    let kind = g.rng.below(10);
    if let (0..=5, Some(streams)) = (kind, spec.streams.as_mut()) {
        if !streams.is_empty() {
            let i = g.rng.usize_below(streams.len());
            let set: Vec<usize> = (0..6).filter(|f| streams[i].1[*f]).collect();
            if kind <= 3 && !set.is_empty() {
                let f = *g.rng.pick(&set);
                streams[i].1[f] = false;
                return Some(spec);
            }
            if kind == 4 {
                if let Some(table) = streams[i].2.as_mut() {
                    if !table.is_empty() {
                        let t = g.rng.usize_below(table.len());
                        let set: Vec<usize> = (0..4).filter(|f| table[t].1[*f]).collect();
                        if !set.is_empty() {
                            let f = *g.rng.pick(&set);
                            table[t].1[f] = false;
                            return Some(spec);
                        }
                    }
                }
            }
            if streams.len() > 1 || g.cfg.codec_corners {
                streams.remove(i);
            } else {
                spec.streams = None;
            }
            return Some(spec);
        }
    }
    if kind == 9 {
        return None;
    }
    let set: Vec<usize> = (0..10).filter(|f| spec.global[*f]).collect();
    if !set.is_empty() {
        let f = *g.rng.pick(&set);
        spec.global[f] = false;
    } else {
        spec.streams = None;
    }
    Some(spec)
}

pub fn user_op(g: &mut Gen, model: &Model, c: usize) -> Op {
    let users: Vec<(u32, String, String)> = model.users.values().map(|u| (u.id, u.name.clone(), u.password.clone())).collect();
    let non_root: Vec<(u32, String, String)> = users.iter().filter(|u| u.0 != 1).cloned().collect();
    let uref = |g: &mut Gen, u: &(u32, String, String)| if g.rng.chance(0.4) { IdRef::Name(u.1.clone()) } else { IdRef::Num(u.0) };
    match g.rng.below(30) {
        0..=3 => {
            let name = if g.rng.chance(g.cfg.invalid_chance) && !users.is_empty() { g.rng.pick(&users).1.clone() } else { g.fresh_name("user-") };
            let password = format!("secret-pw-{}-{}", g.rng.below(1_000_000), name);
            Op::CreateUser { c, name, password, active: !g.rng.chance(0.15), perms: draw_perms(g, model) }
        }
        4 => match non_root.is_empty() {
            false => {
                let u = g.rng.pick(&non_root).clone();
                Op::DeleteUser { c, user: uref(g, &u) }
            }
            true => Op::GetUsers { c },
        },
        5 => Op::DeleteUser { c, user: IdRef::Num(1) },
        6 => Op::UpdatePermissions { c, user: IdRef::Num(1), perms: draw_perms(g, model) },
        7..=10 => match non_root.is_empty() {
            false => {
                let u = g.rng.pick(&non_root).clone();
                let current = model.users.get(&u.0).and_then(|m| m.perms.clone());
                let logged_in: Vec<usize> = (1..g.cfg.clients).filter(|c2| model.sessions.get(*c2).map(|s| s.user == u.0).unwrap_or(false)).collect();
                let existing: Vec<u32> = model.streams.iter().filter(|(_, s)| !s.topics.is_empty()).map(|(k, _)| *k).collect();
                if !g.in_probe && !logged_in.is_empty() && !existing.is_empty() && g.rng.chance(g.cfg.revocation_chance * 0.4) {
                    // directed history "grant exactly one data flag on one stream, use it, take it away, try again":
                    // every per-stream flag combination of the form {read access + one of send / poll / manage_topics}
                    let focus = *g.rng.pick(&existing);
                    let data_flag = *g.rng.pick(&[5usize, 5, 4, 2]);
                    let mut flags = [false, true, false, true, false, false];
                    flags[data_flag] = true;
                    let mut global = [false; 10];
                    if g.rng.chance(0.3) {
                        global[3] = true; // read_streams
                    }
                    let granted = PermSpec { global, streams: Some(vec![(focus, flags, None)]) };
                    let mut revoked = granted.clone();
                    match g.rng.below(3) {
                        0 => revoked.streams.as_mut().unwrap()[0].1[data_flag] = false,
                        1 => revoked.streams = if g.cfg.codec_corners { Some(vec![]) } else { None },
                        _ => {
                            revoked.streams.as_mut().unwrap()[0].1[data_flag] = false;
                            revoked.streams.as_mut().unwrap()[0].1[1] = true;
                        }
                    }
                    for phase in 0..2 {
                        for c2 in &logged_in {
                            for _ in 0..3 {
                                if let Some(op) = g.targeted_permission_probe(model, *c2, focus) {
                                    g.pending.push_back(op);
                                }
                            }
                        }
                        if phase == 0 {
                            let user = uref(g, &u);
                            g.pending.push_back(Op::UpdatePermissions { c, user, perms: Some(revoked.clone()) });
                        }
                    }
                    return Op::UpdatePermissions { c, user: uref(g, &u), perms: Some(granted) };
                }
                let perms = match current {
                    Some(current) if !g.in_probe && g.rng.chance(g.cfg.revocation_chance) => {
                        // revocation arm: take one grant away, keep the rest, and let the user's open
                        // connections try at once what the old record allowed - mostly on the streams the
                        // record names
                        let named: Vec<u32> = current.streams.as_ref().map(|s| s.iter().map(|x| x.0).filter(|sid| model.streams.contains_key(sid)).collect()).unwrap_or_default();
                        for c2 in 1..g.cfg.clients {
                            if model.sessions.get(c2).map(|s| s.user == u.0).unwrap_or(false) {
                                for _ in 0..(3 + g.rng.below(5)) {
                                    let op = if !named.is_empty() && g.rng.chance(0.7) {
                                        let focus = *g.rng.pick(&named);
                                        g.targeted_permission_probe(model, c2, focus)
                                    } else {
                                        g.permission_probe(model, c2)
                                    };
                                    if let Some(op) = op {
                                        g.pending.push_back(op);
                                    }
                                }
                            }
                        }
                        demote(g, current)
                    }
                    _ => draw_perms(g, model),
                };
                Op::UpdatePermissions { c, user: uref(g, &u), perms }
            }
            true => Op::GetUsers { c },
        },
        11 | 12 => match non_root.is_empty() {
            false => {
                let u = g.rng.pick(&non_root).clone();
                let name = if g.rng.chance(0.3) { Some(g.fresh_name("renamed-user-")) } else { None };
                let active = if g.rng.chance(0.7) { Some(g.rng.chance(0.5)) } else { None };
                Op::UpdateUser { c, user: uref(g, &u), name, active }
            }
            true => Op::GetUsers { c },
        },
        13 | 14 => {
            let u = g.rng.pick(&users).clone();
            let current = if g.rng.chance(0.6) { u.2.clone() } else { format!("wrong-{}", g.rng.below(1000)) };
            let new = format!("new-secret-pw-{}-{}", g.rng.below(1_000_000), u.0);
            Op::ChangePassword { c, user: uref(g, &u), current, new }
        }
        15..=19 => {
            // right / wrong / stale / other user's credential
            let u = g.rng.pick(&users).clone();
            let password = match g.rng.below(5) {
                0 => format!("wrong-{}", g.rng.below(1000)),
                1 if users.len() > 1 => g.rng.pick(&users).2.clone(),
                2 => format!("secret-pw-0-{}", u.1),
                _ => u.2.clone(),
            };
            Op::Login { c, name: u.1.clone(), password }
        }
        20 => Op::Login { c, name: "nobody-here".into(), password: "whatever-pw".into() },
        21 | 22 => Op::Logout { c },
        23 | 24 if !g.in_probe && g.rng.chance(g.cfg.pat_reuse_chance) => {
            // a token expires, its name is used again before the cleaner ran, the name is deleted, and the
            // newest token is presented: whatever the second create answered, a deleted token must not log in
            let name = g.fresh_name("tok-");
            let login_on = if c != 0 { Some(c) } else if g.cfg.clients > 1 { Some(1) } else { None };
            g.pending.push_back(Op::Jump(3_000_000));
            g.pending.push_back(Op::CreatePat { c, name: name.clone(), expiry_micros: *g.rng.pick(&[0u64, 60_000_000]) });
            g.pending.push_back(Op::DeletePat { c, name: name.clone() });
            if let Some(l) = login_on {
                g.pending.push_back(Op::LoginPat { c: l, token_ref: usize::MAX });
            }
            Op::CreatePat { c, name, expiry_micros: 1_000_000 }
        }
        23 | 24 => {
            let expiry = *g.rng.pick(&[0u64, 0, 1_000_000, 5_000_000, 60_000_000]);
            let name = if g.rng.chance(0.15) { "tok-1".to_string() } else { g.fresh_name("tok-") };
            Op::CreatePat { c, name, expiry_micros: expiry }
        }
        25 => Op::DeletePat { c, name: format!("tok-{}", 1 + g.rng.below(g.name_counter.max(1) as u64)) },
        26 | 27 => {
            if model.raw_tokens.is_empty() {
                Op::GetPats { c }
            } else {
                Op::LoginPat { c, token_ref: g.rng.usize_below(model.raw_tokens.len()) }
            }
        }
        28 => Op::GetMe { c },
        _ => match g.rng.below(4) {
            0 => Op::GetUsers { c },
            1 => {
                let u = g.rng.pick(&users).clone();
                Op::GetUser { c, user: uref(g, &u) }
            }
            2 => Op::GetPats { c },
            _ => Op::GetClients { c },
        },
    }
}
