//! Per-property scenario profiles: which family runs, with which operation weights, configuration
//! arms and oracles switched on.

use crate::gen::*;
use crate::ops::*;
use crate::rng::Rng;
use crate::world::{Knobs, StopKind};

pub const ALL_PROPS: [&str; 20] = [
    "C01", "C02", "C03", "C04", "C05", "C06", "C07", "C08", "C09", "C10", "C11", "C12", "C13", "C14", "C15", "C16", "C17", "C18", "C19", "C20",
];

fn base_case(prop: &str, seed: u64) -> (Case, Rng) {
    let mut rng = Rng::substream(seed, "config");
    let knobs = Knobs::draw(&mut rng);
    let mut case = Case {
        prop: prop.to_string(),
        seed,
        knobs,
        policy: "random".into(),
        yield_prob: 0.2,
        pipe_capacity: 4096,
        auto_tick: 1,
        settle_each: true,
        gen: GenCfg::default(),
        setup: Vec::new(),
        ops: Vec::new(),
        note: String::new(),
    };
    draw_sim_part(&mut rng, &mut case);
    (case, rng)
}

fn log_setup(case: &mut Case, rng: &mut Rng) {
    let topics = case.gen.topics;
    case.setup.push(Op::CreateStream { c: 0, id: Some(1), name: "s1".into() });
    for t in 1..=topics {
        let expiry = rng.pick(&case.gen.topic_expiry).clone();
        let max_size = rng.pick(&case.gen.topic_max_size).clone();
        case.setup.push(Op::CreateTopic { c: 0, stream: IdRef::Num(1), id: Some(t), name: format!("t{t}"), partitions: case.gen.partitions, expiry, max_size, replication: None, compression: 1 });
    }
}

fn perturb(rng: &mut Rng, mix: &mut Mix) {
    // swarm: switch a random subset of the optional operation kinds off, double some others
    let fields: [&mut u32; 12] = [
        &mut mix.flush,
        &mut mix.job_save,
        &mut mix.job_maintain,
        &mut mix.restart_clean,
        &mut mix.restart_flush_kill,
        &mut mix.purge,
        &mut mix.jump,
        &mut mix.store_offset,
        &mut mix.get_offset,
        &mut mix.audit,
        &mut mix.get_topic,
        &mut mix.partitions,
    ];
    for f in fields {
        match rng.below(6) {
            0 => *f = 0,
            1 => *f *= 3,
            _ => {}
        }
    }
}

pub fn make_case(prop: &str, seed: u64) -> Case {
    let (mut case, mut rng) = base_case(prop, seed);
    match prop {
        "C01" | "C02" | "C03" | "C16" => {
            case.gen.topics = 1 + rng.below(2) as u32;
            case.gen.partitions = 1 + rng.below(3) as u32;
            case.gen.ops = 20 + rng.below(100) as u32;
            let expiring = rng.chance(0.3);
            if expiring {
                case.gen.topic_expiry = vec![Expiry::Micros(2_000_000), Expiry::Never];
                case.gen.jump_micros = vec![1_500_000, 3_000_000];
            }
            case.knobs.dedup = rng.chance(0.15);
            let mut mix = Mix {
                send: 40,
                poll: 12,
                flush: 6,
                job_save: 6,
                job_maintain: if expiring { 6 } else { 1 },
                restart_clean: 4,
                restart_flush_kill: 2,
                restart_lose_index: if case.knobs.cache_indexes { 1 } else { 0 },
                purge: 2,
                tick: 10,
                jump: if expiring { 6 } else { 1 },
                back_jump: 0,
                store_offset: 2,
                get_offset: 1,
                audit: 4,
                get_topic: 4,
                ..Default::default()
            };
            match prop {
                "C02" => {
                    mix.poll = 50;
                    mix.send = 30;
                }
                "C03" => {
                    mix.restart_clean = 12;
                    mix.restart_flush_kill = 5;
                    mix.restart_lose_index = if case.knobs.cache_indexes { 3 } else { 0 };
                }
                "C16" => {
                    mix.get_topic = 20;
                    mix.audit = 8;
                    mix.purge = 5;
                    mix.partitions = 4;
                    mix.catalogue = 6;
                }
                _ => {
                    if rng.chance(0.1) {
                        mix.back_jump = 2;
                    }
                }
            }
            perturb(&mut rng, &mut mix);
            mix.send = mix.send.max(10);
            case.gen.mix = mix;
            log_setup(&mut case, &mut rng);
        }
        _ => {
            case.gen.mix = Mix { send: 10, poll: 10, tick: 2, audit: 1, ..Default::default() };
            log_setup(&mut case, &mut rng);
        }
    }
    case
}

/// Operations appended after the generated ones (recorded like the others).
pub fn closing_ops(prop: &str) -> Vec<Op> {
    match prop {
        "C03" | "C05" | "C01" | "C16" | "C07" | "C18" | "C19" | "C14" => vec![Op::Audit, Op::Restart(StopKind::GracefulDrained), Op::Audit],
        _ => vec![Op::Audit],
    }
}
