//! Per-property scenario profiles: which family runs, with which operation weights, configuration
//! arms and oracles switched on.

use crate::gen::*;
use crate::ops::*;
use crate::rng::Rng;
use crate::world::{Knobs, StopKind};

pub const ALL_PROPS: [&str; 20] = [
    "C01", "C02", "C03", "C04", "C05", "C06", "C07", "C08", "C09", "C10", "C11", "C12", "C13", "C14", "C15", "C16", "C17", "C18", "C19", "C20",
];

fn base_case(prop: &str, seed: u64) -> (Case, Rng) {
    let mut rng = Rng::substream(seed, "config");
    let knobs = Knobs::draw(&mut rng);
    let mut case = Case {
        prop: prop.to_string(),
        seed,
        knobs,
        policy: "random".into(),
        yield_prob: 0.2,
        pipe_capacity: 4096,
        auto_tick: 1,
        settle_each: true,
        gen: GenCfg::default(),
        setup: Vec::new(),
        ops: Vec::new(),
        note: String::new(),
        http_arm: false,
        defer_writes: false,
        disk_fault_rate: 0.0,
        journal_fault_rate: 0.0,
    };
    draw_sim_part(&mut rng, &mut case);
    // the HTTP arm: a share of the runs of the properties that are stated for both transports
    let mut arm = Rng::substream(seed, "http-arm");
    case.http_arm = matches!(prop, "C01" | "C02" | "C03" | "C05" | "C06" | "C07" | "C09" | "C10" | "C13" | "C14" | "C15" | "C16" | "C17" | "C18" | "C19") && arm.chance(if prop == "C03" { 0.15 } else { 0.3 });
    let mut defer = Rng::substream(seed, "defer-writes");
    let share = match prop {
        "C12" => 0.4,
        "C04" => 0.3,
        "C11" | "C20" => 0.2,
        "C01" | "C02" | "C03" | "C14" | "C16" | "C07" => 0.15,
        _ => 0.0,
    };
    case.defer_writes = defer.chance(share);
    // the disk-fault arm of the log properties (separate from the fault-free runs, so that its relaxations
    // hide nothing there)
    let mut faults = Rng::substream(seed, "disk-faults");
    if matches!(prop, "C01" | "C02") && faults.chance(0.15) {
        case.disk_fault_rate = *faults.pick(&[0.02, 0.05, 0.15]);
        case.knobs.dedup = false;
        case.knobs.no_wait = false;
        case.http_arm = false;
    }
    // the journal-fault arm of C06: "a failed command changes nothing" also when it fails at the journal
    if prop == "C06" && faults.chance(0.1) {
        case.journal_fault_rate = *faults.pick(&[0.03, 0.1]);
        case.http_arm = false;
    }
    (case, rng)
}

fn log_setup(case: &mut Case, rng: &mut Rng) {
    let topics = case.gen.topics;
    case.setup.push(Op::CreateStream { c: 0, id: Some(1), name: "str-1".into() });
    for t in 1..=topics {
        let expiry = rng.pick(&case.gen.topic_expiry).clone();
        let max_size = rng.pick(&case.gen.topic_max_size).clone();
        case.setup.push(Op::CreateTopic { c: 0, stream: IdRef::Num(1), id: Some(t), name: format!("top-{t}"), partitions: case.gen.partitions, expiry, max_size, replication: None, compression: 1 });
    }
}

fn perturb(rng: &mut Rng, mix: &mut Mix) {
    // swarm: switch a random subset of the optional operation kinds off, double some others
    let fields: [&mut u32; 12] = [
        &mut mix.flush,
        &mut mix.job_save,
        &mut mix.job_maintain,
        &mut mix.restart_clean,
        &mut mix.restart_flush_kill,
        &mut mix.purge,
        &mut mix.jump,
        &mut mix.store_offset,
        &mut mix.get_offset,
        &mut mix.audit,
        &mut mix.get_topic,
        &mut mix.partitions,
    ];
    for f in fields {
        match rng.below(6) {
            0 => *f = 0,
            1 => *f *= 3,
            _ => {}
        }
    }
}

pub fn make_case(prop: &str, seed: u64) -> Case {
    let (mut case, mut rng) = base_case(prop, seed);
    match prop {
        "C01" | "C02" | "C03" | "C16" => {
            case.gen.topics = 1 + rng.below(2) as u32;
            case.gen.partitions = 1 + rng.below(3) as u32;
            case.gen.ops = 20 + rng.below(100) as u32;
            let expiring = rng.chance(0.3);
            if expiring {
                case.gen.topic_expiry = vec![Expiry::Micros(2_000_000), Expiry::Never];
                case.gen.jump_micros = vec![1_500_000, 3_000_000];
            }
            case.knobs.dedup = rng.chance(0.15);
            let mut mix = Mix {
                send: 40,
                poll: 12,
                flush: 6,
                job_save: 6,
                job_maintain: if expiring { 6 } else { 1 },
                restart_clean: 4,
                restart_flush_kill: 2,
                restart_lose_index: if case.knobs.cache_indexes { 1 } else { 0 },
                purge: 2,
                tick: 10,
                jump: if expiring { 6 } else { 1 },
                back_jump: 0,
                store_offset: 2,
                get_offset: 1,
                audit: 4,
                get_topic: 4,
                ..Default::default()
            };
            match prop {
                "C02" => {
                    mix.poll = 50;
                    mix.send = 30;
                }
                "C03" => {
                    case.gen.send_then_restart_chance = 0.35;
                    mix.restart_clean = 12;
                    mix.restart_flush_kill = 5;
                    mix.restart_lose_index = if case.knobs.cache_indexes { 3 } else { 0 };
                }
                "C16" => {
                    case.gen.send_then_purge_chance = 0.5;
                    // what is reported must be what is stored, also when the stored bytes are ciphertext
                    if rng.chance(0.2) {
                        use base64::Engine;
                        case.knobs.encryption = true;
                        case.knobs.encryption_key = base64::engine::general_purpose::STANDARD.encode(rng.bytes(32));
                    }
                    // repeated ids under deduplication: what is dropped must not be counted
                    case.knobs.dedup = rng.chance(0.3);
                    if case.knobs.dedup {
                        case.gen.repeat_id_chance = 0.3;
                    }
                    mix.get_topic = 20;
                    mix.audit = 8;
                    mix.purge = 5;
                    mix.partitions = 4;
                    mix.catalogue = 6;
                }
                _ => {
                    if prop == "C01" {
                        case.gen.send_then_restart_chance = 0.2;
                    }
                    if rng.chance(0.1) {
                        mix.back_jump = 2;
                    }
                }
            }
            perturb(&mut rng, &mut mix);
            mix.send = mix.send.max(10);
            case.gen.mix = mix;
            // rare arm "big batch": one stored batch larger than the 2 MiB a single `tokio::fs::File::write`
            // call accepts (the shim keeps that limit) - the writers have to write the rest too
            if matches!(prop, "C01" | "C02" | "C03") && rng.chance(0.04) {
                case.gen.payload_lens = vec![300_000, 400_000, 1_000];
                case.gen.batch_sizes = vec![3, 5, 8];
                case.gen.ops = 8 + rng.below(12) as u32;
                case.gen.topics = 1;
                case.gen.partitions = 1;
                case.knobs.messages_required_to_save = *rng.pick(&[10, 50, 1000]);
                case.knobs.segment_size = *rng.pick(&[8 * 1024 * 1024, 1_000_000_000]);
                case.knobs.cache_size = 64 * 1024 * 1024;
                case.pipe_capacity = 65536;
                case.yield_prob = case.yield_prob.min(0.05);
            }
            log_setup(&mut case, &mut rng);
        }
        "C14" => {
            // expiring topics next to never-expiring controls; jumps on both sides of the expiry
            case.gen.topics = 1 + rng.below(3) as u32;
            case.gen.partitions = 1 + rng.below(2) as u32;
            case.gen.ops = 20 + rng.below(80) as u32;
            let expiry = *rng.pick(&[1_000_000u64, 2_000_000, 10_000_000, 3_600_000_000]);
            case.gen.topic_expiry = vec![Expiry::Micros(expiry), Expiry::Micros(expiry), Expiry::Never, Expiry::ServerDefault];
            case.gen.jump_micros = vec![expiry / 2, expiry, expiry * 2];
            case.knobs.segment_size = *rng.pick(&[400, 1024, 4096]);
            case.knobs.default_expiry_micros = if rng.chance(0.3) { expiry } else { 0 };
            let mut mix = Mix { send: 40, poll: 8, flush: 3, job_save: 3, job_maintain: 14, restart_clean: 5, restart_flush_kill: 1, purge: 1, tick: 8, jump: 12, update_topic: 4, audit: 5, get_topic: 3, ..Default::default() };
            perturb(&mut rng, &mut mix);
            mix.job_maintain = mix.job_maintain.max(6);
            mix.jump = mix.jump.max(6);
            mix.send = mix.send.max(10);
            case.gen.mix = mix;
            log_setup(&mut case, &mut rng);
        }
        "C15" => {
            case.gen.topics = 1 + rng.below(3) as u32;
            case.gen.partitions = 1 + rng.below(2) as u32;
            case.gen.ops = 20 + rng.below(80) as u32;
            let seg = *rng.pick(&[400u64, 1024, 4096]);
            case.knobs.segment_size = seg;
            case.knobs.delete_oldest_segments = rng.chance(0.5);
            case.knobs.default_max_topic_size = if rng.chance(0.3) { seg * 2 } else { 0 };
            case.gen.topic_max_size = vec![MaxSize::Bytes(seg), MaxSize::Bytes(seg * 2), MaxSize::Bytes(seg * 5), MaxSize::Unlimited, MaxSize::ServerDefault, MaxSize::Bytes(seg / 2), MaxSize::Bytes(seg - 1)];
            case.gen.payload_lens = vec![10, 50, 100, 200, 300];
            // the limit is compared with a size figure: that figure must be what is stored, also when the
            // stored bytes are ciphertext (28 bytes longer per message than what was sent)
            if rng.chance(0.25) {
                use base64::Engine;
                case.knobs.encryption = true;
                case.knobs.encryption_key = base64::engine::general_purpose::STANDARD.encode(rng.bytes(32));
            }
            let mut mix = Mix { send: 50, poll: 5, flush: 3, job_save: 3, job_maintain: 10, restart_clean: 2, purge: 1, tick: 4, update_topic: 6, audit: 4, get_topic: 4, catalogue: 3, ..Default::default() };
            perturb(&mut rng, &mut mix);
            mix.send = mix.send.max(20);
            mix.job_maintain = mix.job_maintain.max(4);
            case.gen.mix = mix;
            // setup: the invalid limits are tried by create_topic too (they must be rejected)
            case.setup.push(Op::CreateStream { c: 0, id: Some(1), name: "str-1".into() });
            for t in 1..=case.gen.topics + 1 {
                let max_size = rng.pick(&case.gen.topic_max_size).clone();
                case.setup.push(Op::CreateTopic { c: 0, stream: IdRef::Num(1), id: Some(t), name: format!("top-{t}"), partitions: case.gen.partitions, expiry: Expiry::Never, max_size, replication: None, compression: 1 });
            }
        }
        "C17" => {
            case.gen.topics = 1 + rng.below(2) as u32;
            case.gen.partitions = 1 + rng.below(6) as u32;
            case.gen.ops = 20 + rng.below(100) as u32;
            case.gen.part_id_weight = 3;
            case.gen.part_balanced_weight = 4;
            case.gen.part_key_weight = 4;
            case.gen.invalid_partition_chance = 0.25;
            case.gen.batch_sizes = vec![1, 1, 2, 3, 5];
            let mut mix = Mix { send: 60, poll: 4, flush: 2, job_save: 2, restart_clean: 3, purge: 1, tick: 3, partitions: 8, audit: 3, get_topic: 2, ..Default::default() };
            perturb(&mut rng, &mut mix);
            mix.send = mix.send.max(30);
            mix.partitions = mix.partitions.max(3);
            case.gen.mix = mix;
            log_setup(&mut case, &mut rng);
        }
        "C18" => {
            case.knobs.dedup = !rng.chance(0.15);
            case.gen.topics = 1;
            case.gen.partitions = 1 + rng.below(2) as u32;
            case.gen.ops = 20 + rng.below(80) as u32;
            case.gen.repeat_id_chance = 0.3;
            case.gen.zero_id_chance = 0.05;
            let mut mix = Mix { send: 60, poll: 6, flush: 5, job_save: 5, restart_clean: 8, restart_flush_kill: 3, purge: 2, tick: 3, audit: 6, ..Default::default() };
            perturb(&mut rng, &mut mix);
            mix.send = mix.send.max(30);
            mix.restart_clean = mix.restart_clean.max(3);
            case.gen.mix = mix;
            log_setup(&mut case, &mut rng);
        }
        "C05" | "C06" | "C13" => {
            if prop == "C13" {
                case.gen.codec_corners = true;
            }
            case.gen.topics = rng.below(2) as u32;
            case.gen.partitions = 1 + rng.below(3) as u32;
            case.gen.ops = 30 + rng.below(120) as u32;
            case.gen.clients = 1 + rng.usize_below(3);
            case.gen.named_ids_chance = 0.4;
            case.gen.invalid_chance = if prop == "C05" { 0.05 } else { 0.25 };
            case.gen.topic_expiry = vec![Expiry::Never, Expiry::ServerDefault, Expiry::Micros(3_600_000_000)];
            case.gen.topic_max_size = vec![MaxSize::Unlimited, MaxSize::ServerDefault, MaxSize::Bytes(case.knobs.segment_size * 3)];
            // "server default" only differs from "never" / "unlimited" when the server's defaults are finite
            if rng.chance(0.4) {
                case.knobs.default_expiry_micros = 7_200_000_000;
            }
            if rng.chance(0.4) {
                case.knobs.default_max_topic_size = case.knobs.segment_size * 5;
            }
            case.gen.batch_sizes = vec![1, 2, 5];
            let mut mix = Mix {
                catalogue: 40,
                groups: 14,
                users: 10,
                send: 10,
                poll: 4,
                partitions: 6,
                purge: 3,
                get_topic: 8,
                audit: 6,
                store_offset: 3,
                restart_clean: if prop == "C05" { 10 } else { 2 },
                restart_flush_kill: if prop == "C05" { 3 } else { 0 },
                connect: 3,
                tick: 3,
                ..Default::default()
            };
            if prop == "C13" {
                mix.garbage = 12;
                mix.unauth = 2;
                mix.users = 16;
                mix.send = 14;
                mix.poll = 10;
                mix.store_offset = 4;
                mix.get_offset = 3;
            }
            perturb(&mut rng, &mut mix);
            mix.catalogue = mix.catalogue.max(20);
            if prop == "C13" {
                mix.garbage = mix.garbage.max(6);
                case.gen.header_chance = 0.6;
                case.gen.payload_lens = vec![1, 2, 10, 100, 1000, 5000];
            }
            if prop == "C05" {
                mix.restart_clean = mix.restart_clean.max(5);
            }
            case.gen.mix = mix;
            log_setup(&mut case, &mut rng);
        }
        "C08" => {
            case.gen.topics = 1 + rng.below(2) as u32;
            case.gen.partitions = 1 + rng.below(6) as u32;
            case.gen.ops = 40 + rng.below(120) as u32;
            case.gen.clients = 2 + rng.usize_below(5);
            case.gen.batch_sizes = vec![1, 2, 3, 5];
            case.gen.jump_micros = vec![3_000_000, 7_000_000];
            let mut mix = Mix { groups: 60, send: 20, poll: 2, partitions: 8, connect: 8, jump: 4, job_heartbeat: 4, tick: 3, audit: 4, purge: 1, restart_clean: 1, ..Default::default() };
            perturb(&mut rng, &mut mix);
            mix.groups = mix.groups.max(30);
            mix.send = mix.send.max(10);
            case.gen.mix = mix;
            log_setup(&mut case, &mut rng);
            for t in 1..=case.gen.topics {
                case.setup.push(Op::CreateGroup { c: 0, stream: IdRef::Num(1), topic: IdRef::Num(t), id: Some(1), name: format!("grp-{t}") });
            }
        }
        "C09" | "C10" => {
            case.gen.topics = 1 + rng.below(2) as u32;
            case.gen.partitions = 1 + rng.below(2) as u32;
            case.gen.ops = 40 + rng.below(140) as u32;
            case.gen.clients = 2 + rng.usize_below(3);
            case.gen.named_ids_chance = 0.3;
            case.gen.batch_sizes = vec![1, 2];
            case.gen.jump_micros = vec![600_000, 3_000_000, 40_000_000];
            let mut mix = if prop == "C09" {
                Mix { users: 40, catalogue: 20, groups: 8, send: 10, poll: 10, get_topic: 12, store_offset: 3, get_offset: 3, partitions: 3, purge: 2, flush: 2, tick: 2, audit: 2, connect: 2, ..Default::default() }
            } else {
                Mix { users: 70, catalogue: 4, send: 2, poll: 2, get_topic: 3, jump: 8, job_clean_tokens: 4, tick: 3, audit: 2, restart_clean: 6, restart_flush_kill: 1, connect: 3, ..Default::default() }
            };
            if prop == "C10" {
                mix.unauth = 3;
                case.gen.pat_reuse_chance = 0.3;
            }
            if prop == "C09" {
                mix.unauth = 6;
                case.gen.revocation_chance = *rng.pick(&[0.0, 0.5, 0.8]);
            }
            perturb(&mut rng, &mut mix);
            mix.users = mix.users.max(30);
            case.gen.mix = mix;
            log_setup(&mut case, &mut rng);
            case.setup.push(Op::CreateStream { c: 0, id: Some(2), name: "str-2".into() });
            case.setup.push(Op::CreateTopic { c: 0, stream: IdRef::Num(2), id: Some(1), name: "top-1".into(), partitions: 1, expiry: Expiry::Never, max_size: MaxSize::Unlimited, replication: None, compression: 1 });
            // every other connection starts as a non-root user with a swarm-generated record
            for c in 1..case.gen.clients {
                let name = format!("setup-user-{c}");
                let password = format!("setup-secret-pw-{c}-{}", rng.below(1_000_000));
                let density = *rng.pick(&[0.05, 0.15, 0.3, 0.5]);
                let mut global = [false; 10];
                for f in global.iter_mut() {
                    *f = rng.chance(density);
                }
                let mut streams = Vec::new();
                for sid in [1u32, 2] {
                    if rng.chance(0.7) {
                        let sd = *rng.pick(&[0.0, 0.2, 0.5]);
                        let mut f = [false; 6];
                        for x in f.iter_mut() {
                            *x = rng.chance(sd);
                        }
                        let table = if rng.chance(0.5) { None } else { Some(vec![(1u32, [rng.chance(0.4), rng.chance(0.4), rng.chance(0.4), rng.chance(0.4)])]) };
                        streams.push((sid, f, table));
                    }
                }
                let perms = if rng.chance(0.1) { None } else { Some(PermSpec { global, streams: if streams.is_empty() { None } else { Some(streams) } }) };
                case.setup.push(Op::CreateUser { c: 0, name: name.clone(), password: password.clone(), active: true, perms });
                case.setup.push(Op::Login { c, name, password });
            }
        }
        "C04" => {
            case.gen.topics = 1 + rng.below(2) as u32;
            case.gen.partitions = 1 + rng.below(2) as u32;
            case.gen.ops = 6 + rng.below(25) as u32;
            case.knobs.segment_size = *rng.pick(&[400, 1024, 4096, 65536]);
            case.knobs.messages_required_to_save = *rng.pick(&[1, 2, 3, 5, 10, 1000]);
            case.knobs.cache_enabled = rng.chance(0.2);
            case.gen.batch_sizes = vec![1, 2, 3, 5, 8];
            case.gen.payload_lens = vec![5, 20, 60, 150];
            let expiring = rng.chance(0.3);
            if expiring {
                case.gen.topic_expiry = vec![Expiry::Micros(2_000_000), Expiry::Never];
                case.gen.jump_micros = vec![3_000_000];
            }
            let mut mix = Mix { send: 50, flush: 8, job_save: 8, store_offset: 10, delete_offset: 2, purge: 2, tick: 3, job_maintain: if expiring { 8 } else { 0 }, jump: if expiring { 6 } else { 0 }, catalogue: 3, partitions: 2, poll: 3, ..Default::default() };
            perturb(&mut rng, &mut mix);
            mix.send = mix.send.max(25);
            case.gen.mix = mix;
            case.settle_each = true;
            log_setup(&mut case, &mut rng);
        }
        "C11" => {
            case.knobs.state_fsync = rng.chance(0.5);
            case.settle_each = false;
            case.yield_prob = *rng.pick(&[0.2, 0.5, 1.0, 1.0]);
            case.policy = rng.pick(&["random", "random", "pct", "eager_bg"]).to_string();
        }
        "C20" => {
            case.knobs.messages_required_to_save = *rng.pick(&[1, 3, 10, 1000]);
            case.knobs.segment_size = *rng.pick(&[1024, 65536, 8 * 1024 * 1024]);
            case.knobs.no_wait = false;
            case.knobs.dedup = false;
            case.settle_each = false;
            case.yield_prob = *rng.pick(&[0.0, 0.2, 0.5]);
            // the SDK paces itself by comparing IggyTimestamp::now() with timer sleeps: the wall clock must
            // not run ahead of the timer clock, so no per-read tick here
            case.auto_tick = 0;
        }
        "C12" => {
            case.knobs.segment_size = *rng.pick(&[400, 1024, 4096, 65536, 8 * 1024 * 1024]);
            case.knobs.messages_required_to_save = *rng.pick(&[1, 2, 3, 5, 10, 50, 1000]);
            case.knobs.cache_enabled = rng.chance(0.5);
            case.knobs.cache_size = *rng.pick(&[512, 2048, 16 * 1024]);
            case.knobs.no_wait = rng.chance(0.4);
            case.settle_each = false;
            case.yield_prob = *rng.pick(&[0.2, 0.5, 0.8, 1.0]);
            case.policy = rng.pick(&["random", "random", "pct", "starve_bg", "eager_bg"]).to_string();
        }
        "C19" => {
            use base64::Engine;
            case.knobs.encryption = !rng.chance(0.1);
            let key: Vec<u8> = rng.bytes(32);
            case.knobs.encryption_key = base64::engine::general_purpose::STANDARD.encode(key);
            case.gen.topics = 1 + rng.below(2) as u32;
            case.gen.partitions = 1 + rng.below(2) as u32;
            case.gen.ops = 20 + rng.below(80) as u32;
            case.gen.clients = 1 + rng.usize_below(2);
            case.gen.payload_lens = vec![1, 5, 11, 12, 13, 16, 40, 200, 1000];
            case.gen.header_chance = 0.3;
            let mut mix = Mix { send: 40, poll: 15, flush: 6, job_save: 5, restart_clean: 6, restart_flush_kill: 2, key_mismatch: 4, purge: 1, tick: 3, audit: 8, catalogue: 10, users: 4, groups: 3, store_offset: 2, get_topic: 2, ..Default::default() };
            perturb(&mut rng, &mut mix);
            mix.send = mix.send.max(20);
            mix.audit = mix.audit.max(4);
            mix.key_mismatch = mix.key_mismatch.max(2);
            case.gen.mix = mix;
            log_setup(&mut case, &mut rng);
        }
        "C07" => {
            case.gen.topics = 1 + rng.below(2) as u32;
            case.gen.partitions = 1 + rng.below(3) as u32;
            case.gen.ops = 30 + rng.below(100) as u32;
            case.gen.clients = 1 + rng.usize_below(3);
            let mut mix = Mix { send: 20, poll: 25, flush: 2, job_save: 2, restart_clean: 5, restart_flush_kill: 2, purge: 3, tick: 3, store_offset: 25, get_offset: 25, delete_offset: 8, audit: 4, groups: 10, ..Default::default() };
            perturb(&mut rng, &mut mix);
            mix.store_offset = mix.store_offset.max(10);
            mix.get_offset = mix.get_offset.max(10);
            mix.send = mix.send.max(10);
            case.gen.mix = mix;
            log_setup(&mut case, &mut rng);
            // a group whose numeric id equals a consumer id used by the generator
            for t in 1..=case.gen.topics {
                case.setup.push(Op::CreateGroup { c: 0, stream: IdRef::Num(1), topic: IdRef::Num(t), id: Some(1 + rng.below(3) as u32), name: format!("grp-{t}") });
            }
        }
        _ => {
            case.gen.mix = Mix { send: 10, poll: 10, tick: 2, audit: 1, ..Default::default() };
            log_setup(&mut case, &mut rng);
        }
    }
    if case.journal_fault_rate > 0.0 {
        // no restarts in this arm: a start-up that reads the journal under injected errors is C11's subject
        case.gen.mix.restart_clean = 0;
        case.gen.mix.restart_flush_kill = 0;
        case.gen.mix.restart_lose_index = 0;
    }
    case
}

/// Operations appended after the generated ones (recorded like the others).
pub fn closing_ops(prop: &str) -> Vec<Op> {
    match prop {
        "C03" | "C05" | "C01" | "C16" | "C07" | "C18" | "C19" | "C14" => vec![Op::Audit, Op::Restart(StopKind::GracefulDrained), Op::Audit],
        _ => vec![Op::Audit],
    }
}
