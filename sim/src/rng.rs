//! xoshiro256** seeded through SplitMix64; named sub-streams so that shrinking the workload does
//! not reshuffle the schedule. Nothing here reads a clock or OS randomness.

#[derive(Clone, Debug)]
pub struct Rng {
    s: [u64; 4],
}

fn splitmix(x: &mut u64) -> u64 {
    *x = x.wrapping_add(0x9E37_79B9_7F4A_7C15);
    let mut z = *x;
    z = (z ^ (z >> 30)).wrapping_mul(0xBF58_476D_1CE4_E5B9);
    z = (z ^ (z >> 27)).wrapping_mul(0x94D0_49BB_1331_11EB);
    z ^ (z >> 31)
}

impl Rng {
    pub fn new(seed: u64) -> Rng {
        let mut x = seed;
        let s = [
            splitmix(&mut x),
            splitmix(&mut x),
            splitmix(&mut x),
            splitmix(&mut x),
        ];
        Rng { s }
    }

    /// Independent sub-stream identified by a label.
    pub fn substream(seed: u64, label: &str) -> Rng {
        let mut h: u64 = 0xcbf2_9ce4_8422_2325;
        for b in label.bytes() {
            h ^= b as u64;
            h = h.wrapping_mul(0x1000_0000_01b3);
        }
        Rng::new(seed ^ h.rotate_left(17) ^ 0xA5A5_5A5A_1234_5678)
    }

    pub fn next_u64(&mut self) -> u64 {
        let result = self.s[1].wrapping_mul(5).rotate_left(7).wrapping_mul(9);
        let t = self.s[1] << 17;
        self.s[2] ^= self.s[0];
        self.s[3] ^= self.s[1];
        self.s[1] ^= self.s[2];
        self.s[0] ^= self.s[3];
        self.s[2] ^= t;
        self.s[3] = self.s[3].rotate_left(45);
        result
    }

    /// Uniform in `0..n` (n > 0).
    pub fn below(&mut self, n: u64) -> u64 {
        debug_assert!(n > 0);
        if n <= 1 {
            return 0;
        }
        self.next_u64() % n
    }

    pub fn range(&mut self, lo: u64, hi_inclusive: u64) -> u64 {
        lo + self.below(hi_inclusive - lo + 1)
    }

    pub fn usize_below(&mut self, n: usize) -> usize {
        self.below(n as u64) as usize
    }

    pub fn chance(&mut self, p: f64) -> bool {
        if p <= 0.0 {
            return false;
        }
        if p >= 1.0 {
            return true;
        }
        (self.next_u64() >> 11) as f64 / ((1u64 << 53) as f64) < p
    }

    pub fn pick<'a, T>(&mut self, items: &'a [T]) -> &'a T {
        &items[self.usize_below(items.len())]
    }

    pub fn pick_weighted(&mut self, weights: &[u32]) -> usize {
        let total: u64 = weights.iter().map(|w| *w as u64).sum();
        if total == 0 {
            return 0;
        }
        let mut x = self.below(total);
        for (i, w) in weights.iter().enumerate() {
            if x < *w as u64 {
                return i;
            }
            x -= *w as u64;
        }
        weights.len() - 1
    }

    pub fn bytes(&mut self, len: usize) -> Vec<u8> {
        (0..len).map(|_| self.next_u64() as u8).collect()
    }
}
