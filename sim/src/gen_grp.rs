//! Generation of consumer-group and user operations (GRP / AUTH families).

use crate::gen::Gen;
use crate::model::Model;
use crate::ops::*;

pub fn group_op(g: &mut Gen, model: &Model, c: usize) -> Op {
    let topics: Vec<(u32, u32)> = model.streams.values().flat_map(|s| s.topics.values().map(move |t| (s.id, t.id))).collect();
    if topics.is_empty() {
        return Op::Ping { c };
    }
    let (sid, tid) = *g.rng.pick(&topics);
    let t = &model.streams[&sid].topics[&tid];
    let groups: Vec<(u32, String)> = t.groups.values().map(|x| (x.id, x.name.clone())).collect();
    let stream = IdRef::Num(sid);
    let topic = if g.rng.chance(g.cfg.named_ids_chance) { IdRef::Name(t.name.clone()) } else { IdRef::Num(tid) };
    let gref = |g: &mut Gen, x: &(u32, String)| if g.rng.chance(g.cfg.named_ids_chance) { IdRef::Name(x.1.clone()) } else { IdRef::Num(x.0) };
    let invalid = g.rng.chance(g.cfg.invalid_chance);
    if groups.is_empty() || g.rng.chance(0.12) {
        let id = match g.rng.below(3) {
            0 => None,
            _ => Some(if invalid && !groups.is_empty() { g.rng.pick(&groups).0 } else { 1 + g.rng.below(4) as u32 }),
        };
        let name = if invalid && !groups.is_empty() { g.rng.pick(&groups).1.clone() } else { g.fresh_name("group-") };
        return Op::CreateGroup { c, stream, topic, id, name };
    }
    let x = g.rng.pick(&groups).clone();
    let group = gref(g, &x);
    match g.rng.below(20) {
        0 => Op::DeleteGroup { c, stream, topic, group },
        1..=8 => Op::JoinGroup { c, stream, topic, group },
        9..=11 => Op::LeaveGroup { c, stream, topic, group },
        12 => Op::GetGroups { c, stream, topic },
        13 => Op::GetGroup { c, stream, topic, group },
        _ => {
            // poll as the group, mostly the way group members do: next + auto-commit, no partition
            let n = t.partitions.len() as u32;
            let partition = if g.rng.chance(0.25) && n > 0 { Some(1 + g.rng.below(n as u64) as u32) } else { None };
            let kind = if g.rng.chance(0.8) { PollKind::Next } else { PollKind::Offset(0) };
            if partition.is_none() && g.rng.chance(0.4) {
                // act at once: the member's own offset requests without a partition id, right after its poll
                // (skipped by the harness when the sender turns out not to be a member)
                let who = Who::Group(group.clone());
                if g.rng.chance(0.4) {
                    g.pending.push_back(Op::StoreOffset { c, stream: stream.clone(), topic: topic.clone(), partition: None, who: who.clone(), offset: 0 });
                }
                g.pending.push_back(Op::GetOffset { c, stream: stream.clone(), topic: topic.clone(), partition: None, who: who.clone() });
                if g.rng.chance(0.2) {
                    g.pending.push_back(Op::DeleteOffset { c, stream: stream.clone(), topic: topic.clone(), partition: None, who });
                }
            }
            Op::Poll { c, stream, topic, partition, who: Who::Group(group), kind, count: *g.rng.pick(&[1, 2, 5, 10, 100]), auto_commit: g.rng.chance(0.8) }
        }
    }
}

pub fn user_op(g: &mut Gen, model: &Model, c: usize) -> Op {
    crate::gen_auth::user_op(g, model, c)
}
