//! Generation of consumer-group and user operations (GRP / AUTH families).

use crate::gen::Gen;
use crate::model::Model;
use crate::ops::*;

pub fn group_op(_g: &mut Gen, _model: &Model, c: usize) -> Op {
    Op::Ping { c }
}

pub fn user_op(_g: &mut Gen, _model: &Model, c: usize) -> Op {
    Op::Ping { c }
}
