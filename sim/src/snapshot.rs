//! What the server reports about itself, as a flat map — taken before a shutdown and after the
//! restart and compared key by key (C03, C05, C07, C16).

use crate::harness::*;
use crate::ops::{canon_headers_of, IdRef};
use iggy::client::*;
use iggy::consumer::Consumer;
use iggy::messages::poll_messages::PollingStrategy;
use std::collections::BTreeMap;

pub type Snapshot = BTreeMap<String, String>;

fn fnv(data: &[u8]) -> u64 {
    let mut h: u64 = 0xcbf2_9ce4_8422_2325;
    for b in data {
        h ^= *b as u64;
        h = h.wrapping_mul(0x1000_0000_01b3);
    }
    h
}

pub async fn take(h: &mut Harness) -> Snapshot {
    let mut snap = Snapshot::new();
    if h.clients[0].is_none() && h.connect_client(0, true).await.is_err() {
        return snap;
    }
    h.sim.settle().await;
    let client = h.clients[0].as_ref().unwrap();
    if let Ok(streams) = client.get_streams().await {
        let mut list: Vec<String> = streams.iter().map(|s| format!("{}:{}", s.id, s.name)).collect();
        list.sort();
        snap.insert("cat/streams".into(), list.join(","));
        for s in &streams {
            snap.insert(format!("fig/stream/{}", s.id), format!("size={} messages={} topics={}", s.size.as_bytes_u64(), s.messages_count, s.topics_count));
            let sid = IdRef::Num(s.id).to_identifier();
            if let Ok(Some(details)) = client.get_stream(&sid).await {
                let mut topics: Vec<String> = details.topics.iter().map(|t| format!("{}:{}", t.id, t.name)).collect();
                topics.sort();
                snap.insert(format!("cat/stream/{}", s.id), format!("name={} topics=[{}]", details.name, topics.join(",")));
                for t in &details.topics {
                    let tid = IdRef::Num(t.id).to_identifier();
                    if let Ok(Some(td)) = client.get_topic(&sid, &tid).await {
                        let mut parts: Vec<String> = td.partitions.iter().map(|p| format!("{}", p.id)).collect();
                        parts.sort();
                        snap.insert(
                            format!("cat/topic/{}/{}", s.id, t.id),
                            format!("name={} expiry={:?} max={:?} repl={} comp={:?} partitions=[{}]", td.name, td.message_expiry, td.max_topic_size, td.replication_factor, td.compression_algorithm, parts.join(",")),
                        );
                        snap.insert(format!("fig/topic/{}/{}", s.id, t.id), format!("size={} messages={}", td.size.as_bytes_u64(), td.messages_count));
                        for p in &td.partitions {
                            snap.insert(format!("fig/partition/{}/{}/{}", s.id, t.id, p.id), format!("size={} messages={} segments={}", p.size.as_bytes_u64(), p.messages_count, p.segments_count));
                            snap.insert(format!("cur/{}/{}/{}", s.id, t.id, p.id), format!("{}", p.current_offset));
                        }
                    }
                    if let Ok(groups) = client.get_consumer_groups(&sid, &tid).await {
                        let mut list: Vec<String> = groups.iter().map(|g| format!("{}:{}:{}", g.id, g.name, g.partitions_count)).collect();
                        list.sort();
                        snap.insert(format!("cat/groups/{}/{}", s.id, t.id), list.join(","));
                    }
                }
            }
        }
    }
    if let Ok(users) = client.get_users().await {
        let mut list: Vec<String> = users.iter().map(|u| format!("{}:{}:{}", u.id, u.username, u.status)).collect();
        list.sort();
        snap.insert("cat/users".into(), list.join(","));
        for u in &users {
            if let Ok(Some(details)) = client.get_user(&IdRef::Num(u.id).to_identifier()).await {
                snap.insert(format!("cat/user/{}", u.id), format!("name={} status={} perms={}", details.username, details.status, canon_permissions(&details.permissions)));
            }
        }
    }
    if let Ok(pats) = client.get_personal_access_tokens().await {
        // a token at or near its expiry may legitimately be gone after the restart (expired tokens are not
        // reloaded): only tokens that outlive this snapshot by a simulated hour are compared
        let now = h.sim.now_micros();
        let horizon = *h.snapshot_horizon.get_or_insert(now + 3_600_000_000);
        if now >= horizon {
            return_pats_skipped(&mut snap);
        }
        let mut list: Vec<String> = pats
            .iter()
            .filter(|p| p.expiry_at.map(|e| e.as_micros() > horizon).unwrap_or(true))
            .map(|p| format!("{}:{}", p.name, if p.expiry_at.is_some() { "expiring" } else { "never" }))
            .collect();
        list.sort();
        if !snap.contains_key("skip/root_pats") {
            snap.insert("cat/root_pats".into(), list.join(","));
        }
    }
    // are there accepted-but-unsaved messages? (their batch header is only accounted for once they are
    // written, so byte sizes are comparable across a restart only when nothing is buffered)
    {
        let mut buffered = 0u64;
        if let Some(shared) = h.world.shared() {
            let system = shared.read().await;
            for s in h.model.streams.values() {
                for t in s.topics.values() {
                    for p in t.partitions.keys() {
                        if let Some(view) = server::verif::inspect_partition(&system, s.id, t.id, *p).await {
                            buffered += view.segments.iter().map(|x| x.unsaved.map(|u| u.2 as u64).unwrap_or(0)).sum::<u64>();
                        }
                    }
                }
            }
        }
        snap.insert("meta/buffered".into(), buffered.to_string());
    }
    // messages and stored offsets of every partition the model knows
    let targets: Vec<(u32, u32, u32, u64, u64, Vec<u32>, Vec<u32>, bool)> = h
        .model
        .streams
        .values()
        .flat_map(|s| {
            s.topics.values().flat_map(move |t| {
                t.partitions.values().map(move |p| (s.id, t.id, p.id, p.first_retained, p.retained_count(), p.consumer_offsets.keys().copied().collect(), p.group_offsets.keys().copied().collect(), p.tainted))
            })
        })
        .collect();
    for (sid, tid, p, from, count, consumers, groups, _tainted) in targets {
        let s = IdRef::Num(sid).to_identifier();
        let t = IdRef::Num(tid).to_identifier();
        match client.poll_messages(&s, &t, Some(p), &Consumer::default(), &PollingStrategy::offset(from), (count + 5).min(100_000) as u32, false).await {
            Ok(polled) => {
                let mut text = String::new();
                for m in &polled.messages {
                    let headers = canon_headers_of(&m.headers);
                    text.push_str(&format!("{}:{}:{:x}:{}:{}:{:x};", m.offset, m.id, fnv(&m.payload), m.timestamp, m.checksum, fnv(format!("{headers:?}").as_bytes())));
                }
                snap.insert(format!("msg/{sid}/{tid}/{p}"), text);
                snap.insert(format!("cur/{sid}/{tid}/{p}"), format!("{}", polled.current_offset));
            }
            Err(e) => {
                snap.insert(format!("msg/{sid}/{tid}/{p}"), format!("error:{}", e.as_string()));
            }
        }
        for key in consumers {
            let got = client.get_consumer_offset(&Consumer::new(IdRef::Num(key).to_identifier()), &s, &t, Some(p)).await;
            snap.insert(format!("off/{sid}/{tid}/{p}/consumer/{key}"), format!("{:?}", got.ok().flatten().map(|i| i.stored_offset)));
        }
        for key in groups {
            let got = client.get_consumer_offset(&Consumer::group(IdRef::Num(key).to_identifier()), &s, &t, Some(p)).await;
            snap.insert(format!("off/{sid}/{tid}/{p}/group/{key}"), format!("{:?}", got.ok().flatten().map(|i| i.stored_offset)));
        }
    }
    snap
}

pub fn canon_permissions(p: &Option<iggy::models::permissions::Permissions>) -> String {
    match p {
        None => "none".into(),
        Some(p) => {
            let mut streams: Vec<String> = Vec::new();
            if let Some(map) = &p.streams {
                for (sid, sp) in map {
                    let mut topics: Vec<String> = Vec::new();
                    if let Some(tmap) = &sp.topics {
                        for (tid, tp) in tmap {
                            topics.push(format!("{tid}:{}{}{}{}", tp.manage_topic as u8, tp.read_topic as u8, tp.poll_messages as u8, tp.send_messages as u8));
                        }
                        topics.sort();
                    }
                    streams.push(format!(
                        "{sid}:{}{}{}{}{}{}:{}[{}]",
                        sp.manage_stream as u8,
                        sp.read_stream as u8,
                        sp.manage_topics as u8,
                        sp.read_topics as u8,
                        sp.poll_messages as u8,
                        sp.send_messages as u8,
                        if sp.topics.as_ref().map(|t| !t.is_empty()).unwrap_or(false) { "T" } else { "-" },
                        topics.join(",")
                    ));
                }
                streams.sort();
            }
            let g = &p.global;
            format!(
                "g={}{}{}{}{}{}{}{}{}{} streams={}[{}]",
                g.manage_servers as u8,
                g.read_servers as u8,
                g.manage_users as u8,
                g.read_users as u8,
                g.manage_streams as u8,
                g.read_streams as u8,
                g.manage_topics as u8,
                g.read_topics as u8,
                g.poll_messages as u8,
                g.send_messages as u8,
                if p.streams.as_ref().map(|s| !s.is_empty()).unwrap_or(false) { "S" } else { "-" },
                streams.join(";")
            )
        }
    }
}

/// Relative paths of every directory under the data path (sorted).
pub fn dir_tree(root: &str) -> Vec<String> {
    let mut out = Vec::new();
    let root_path = std::path::PathBuf::from(root);
    let mut stack = vec![root_path.clone()];
    while let Some(dir) = stack.pop() {
        let Ok(rd) = std::fs::read_dir(&dir) else { continue };
        for e in rd.flatten() {
            let p = e.path();
            if p.is_dir() {
                out.push(p.strip_prefix(&root_path).unwrap().to_string_lossy().to_string());
                stack.push(p);
            }
        }
    }
    out.sort();
    out
}

pub fn compare(h: &mut Harness, before: &Snapshot, after: &Snapshot, tree_before: &[String]) {
    let mut keys: Vec<&String> = before.keys().chain(after.keys()).collect();
    keys.sort();
    keys.dedup();
    let catalogue_changed = before.iter().filter(|(k, _)| k.starts_with("cat/")).any(|(k, v)| after.get(k) != Some(v)) || after.keys().any(|k| k.starts_with("cat/") && !before.contains_key(k));
    let sizes_comparable = before.get("meta/buffered").map(|x| x == "0").unwrap_or(false);
    let strip_size = |v: Option<&String>| -> Option<String> { v.map(|v| v.split(' ').filter(|part| !part.starts_with("size=")).collect::<Vec<_>>().join(" ")) };
    for key in keys {
        let b = before.get(key);
        let a = after.get(key);
        if a == b || key.starts_with("meta/") || key.starts_with("skip/") {
            continue;
        }
        if key == "cat/root_pats" && (after.contains_key("skip/root_pats") || before.contains_key("skip/root_pats")) {
            continue;
        }
        if key.starts_with("fig/") && !sizes_comparable && strip_size(a) == strip_size(b) {
            continue;
        }
        // figures of a catalogue that itself changed across the restart are C05's business, not C16's
        if key.starts_with("fig/") && catalogue_changed {
            continue;
        }
        let class = key.split('/').next().unwrap_or("");
        let sub = key.split('/').nth(1).unwrap_or("");
        let (prop, oracle): (&'static str, &'static str) = match class {
            "msg" | "cur" => ("C03", "restart_preserves_messages"),
            "cat" => ("C05", "restart_reproduces_catalogue"),
            "fig" => ("C16", "restart_reports_same_figures"),
            "off" => ("C07", "offsets_survive_restart"),
            _ => ("C03", "restart_equality"),
        };
        let tag = match (class, b, a) {
            ("msg", Some(b), Some(a)) => {
                let nb = b.matches(';').count();
                let na = a.matches(';').count();
                if a.starts_with("error:") {
                    "read_fails_after_restart".to_string()
                } else if na < nb {
                    "messages_lost".to_string()
                } else if na > nb {
                    "messages_appeared".to_string()
                } else {
                    "messages_altered".to_string()
                }
            }
            (_, Some(_), None) => format!("{class}_{sub}_lost"),
            (_, None, Some(_)) => format!("{class}_{sub}_appeared"),
            _ => format!("{class}_{sub}_changed"),
        };
        // whatever the property under check: the model no longer describes this entity
        let parts: Vec<&str> = key.split('/').collect();
        match class {
            "msg" | "cur" => {
                if let (Some(s), Some(t), Some(p)) = (parts.get(1).and_then(|x| x.parse::<u32>().ok()), parts.get(2).and_then(|x| x.parse::<u32>().ok()), parts.get(3).and_then(|x| x.parse::<u32>().ok())) {
                    if let Some(pm) = h.model.streams.get_mut(&s).and_then(|x| x.topics.get_mut(&t)).and_then(|x| x.partitions.get_mut(&p)) {
                        pm.tainted = true;
                    }
                }
            }
            "cat" => h.fatal = true,
            _ => {}
        }
        let cut = |s: Option<&String>| s.map(|s| if s.len() > 300 { format!("{}…({} bytes)", &s[..300], s.len()) } else { s.clone() });
        h.violate(prop, oracle, tag, format!("{key}: before restart {:?}, after {:?}", cut(b), cut(a)));
    }
    // no data directory of a live entity is discarded during start-up
    let tree_after = dir_tree(&h.world.data_path());
    for dir in tree_before {
        if !dir.starts_with("streams/") {
            continue;
        }
        if tree_after.binary_search(dir).is_err() {
            // is it the directory of an entity the model still has?
            let parts: Vec<&str> = dir.split('/').collect();
            let live = match parts.as_slice() {
                ["streams", s] => s.parse::<u32>().ok().map(|s| h.model.streams.contains_key(&s)).unwrap_or(false),
                ["streams", s, "topics", t] => match (s.parse::<u32>(), t.parse::<u32>()) {
                    (Ok(s), Ok(t)) => h.model.streams.get(&s).map(|x| x.topics.contains_key(&t)).unwrap_or(false),
                    _ => false,
                },
                ["streams", s, "topics", t, "partitions", p] => match (s.parse::<u32>(), t.parse::<u32>(), p.parse::<u32>()) {
                    (Ok(s), Ok(t), Ok(p)) => h.model.streams.get(&s).and_then(|x| x.topics.get(&t)).map(|x| x.partitions.contains_key(&p)).unwrap_or(false),
                    _ => false,
                },
                _ => false,
            };
            if live {
                h.violate("C05", "live_directory_not_discarded", "directory_removed_at_startup", format!("start-up removed {dir}, which belongs to a live entity"));
            }
        }
    }
}

fn return_pats_skipped(snap: &mut Snapshot) {
    snap.insert("skip/root_pats".into(), String::new());
}
