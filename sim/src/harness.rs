//! Executes operations against the real server (through the real SDK client over the simulated
//! transport), steps the reference model with them and compares every response.

use crate::model::*;
use crate::ops::*;
use crate::rt::Sim;
use crate::world::{Job, StopKind, World};
use iggy::client::*;
use iggy::compression::compression_algorithm::CompressionAlgorithm;
use iggy::consumer::Consumer;
use iggy::error::IggyError;
use iggy::messages::poll_messages::PollingStrategy;
use iggy::messages::send_messages::{Message, Partitioning};
use iggy::models::messages::{MessageState, PolledMessages};
use iggy::tcp::client::TcpClient;
use iggy::utils::duration::IggyDuration;
use iggy::utils::expiry::IggyExpiry;
use iggy::utils::timestamp::IggyTimestamp;
use iggy::utils::topic_size::MaxTopicSize;
use serde::Serialize;
use std::collections::{BTreeMap, BTreeSet};
use std::rc::Rc;
use std::sync::Arc;
use std::time::Duration;

#[derive(Clone, Debug, Serialize)]
pub struct Violation {
    pub prop: &'static str,
    pub oracle: &'static str,
    pub tag: String,
    pub detail: String,
    pub op_index: usize,
}

#[derive(Clone, Debug, Default, Serialize)]
pub struct Stats {
    pub ops: BTreeMap<&'static str, u64>,
    pub ops_ok: BTreeMap<&'static str, u64>,
    pub probes: BTreeMap<&'static str, u64>,
    pub polls_compared: u64,
    pub messages_compared: u64,
    pub restarts: u64,
    pub audits: u64,
}

impl Stats {
    pub fn probe(&mut self, name: &'static str) {
        *self.probes.entry(name).or_insert(0) += 1;
    }
}

#[derive(Clone, Debug)]
pub struct Opts {
    /// settle (run background work to quiescence) after every client operation
    pub settle_each: bool,
    /// compare timestamps of polled messages / decide timestamp polls
    pub check_timestamps: bool,
    /// properties whose oracles are switched on ("*" = all)
    pub props: BTreeSet<&'static str>,
    /// judge C15 (needs an extra get_topic before sends to limited topics)
    pub check_size_limit: bool,
    pub message_cache: bool,
    pub encryption: bool,
    /// route a share of the administrator's catalogue commands over HTTP
    pub http_arm: bool,
    /// disk faults are injected while sends, flushes and background saves run
    pub disk_faults: bool,
}

/// The SDK's `HttpClient` reports a refusal as `HttpResponseError(status, body)`; the body carries the same
/// numeric error id the binary protocol answers with. Mapped back so that both routes are judged alike.
pub fn normalize_http<T>(result: Result<T, IggyError>) -> Result<T, IggyError> {
    match result {
        Err(IggyError::HttpResponseError(_, body)) | Err(IggyError::ResourceNotFound(body)) if body.contains("\"id\"") => {
            let id = serde_json::from_str::<serde_json::Value>(&body).ok().and_then(|v| v["id"].as_u64()).unwrap_or(0) as u32;
            Err(if id == 0 { IggyError::Error } else { IggyError::from_code(id) })
        }
        other => other,
    }
}

/// `routed!(h, c, method(args))`: the call on connection `c`'s client, or - for the administrator in runs with
/// the HTTP arm, by a seeded coin - the same call on the SDK's `HttpClient` against the in-process HTTP API.
#[macro_export]
macro_rules! routed {
    ($h:expr, $c:expr, $method:ident ( $($arg:expr),* $(,)? )) => {{
        if $h.route_http($c) {
            let result = $h.http_twin($c).unwrap().$method($($arg),*).await;
            $h.stats.probe("request_via_http");
            $crate::harness::normalize_http(result)
        } else {
            $h.clients[$c].as_ref().unwrap().$method($($arg),*).await
        }
    }};
}

pub struct Harness {
    pub world: Rc<World>,
    pub sim: Sim,
    pub model: Model,
    pub clients: Vec<Option<TcpClient>>,
    pub violations: Vec<Violation>,
    pub stats: Stats,
    pub op_index: usize,
    pub opts: Opts,
    pub backward_jump: bool,
    pub state_hashes: BTreeSet<u64>,
    pub fatal: bool,
    pub fresh_id: u64,
    pub snapshot_horizon: Option<u64>,
    pub http0: Option<iggy::http::client::HttpClient>,
    /// HTTP twins of the other connections: (user the twin is logged in as, client)
    pub http_twins: BTreeMap<usize, (u32, iggy::http::client::HttpClient)>,
    pub http_rng: crate::rng::Rng,
    /// JWTs revoked by a logout earlier in the run: refused for good, also after restarts
    pub revoked_http_tokens: Vec<String>,
    /// errors are being injected on the state journal (C06's journal-fault arm)
    pub journal_faults: bool,
    /// journal-fault arm: the audit after the first injected journal error has run
    pub journal_fault_met: bool,
    pub log: Vec<String>,
    pub verbose: bool,
    pub key_affinity: BTreeMap<(u32, u32, Vec<u8>, u32), u32>,
    pub rotation: BTreeMap<(u32, u32, u32, u32), Vec<u32>>,
    pub last_ping: BTreeMap<usize, u64>,
    pub connected_at: BTreeMap<usize, u64>,
    pub perm_verdict: Option<crate::harness_auth::Verdict>,
    pub perm_context: String,
    pub ever_user_ids: BTreeSet<u32>,
    pub secrets: Vec<String>,
    pub old_passwords: BTreeMap<u32, Vec<String>>,
    pub token_owner: BTreeMap<usize, (u32, String)>,
    pub token_expiry: BTreeMap<usize, Option<(u64, u64)>>,
    pub journalled_names: Vec<String>,
}

const WIRE_ORACLE_PROPS: [&str; 5] = ["C01", "C02", "C06", "C07", "C17"];

fn ok<T>(r: &Result<T, IggyError>) -> bool {
    r.is_ok()
}

pub fn expiry_to_sdk(e: &Expiry) -> IggyExpiry {
    match e {
        Expiry::ServerDefault => IggyExpiry::ServerDefault,
        Expiry::Never => IggyExpiry::NeverExpire,
        Expiry::Micros(m) => IggyExpiry::ExpireDuration(IggyDuration::from(*m)),
    }
}

pub fn max_size_to_sdk(m: &MaxSize) -> MaxTopicSize {
    match m {
        MaxSize::ServerDefault => MaxTopicSize::ServerDefault,
        MaxSize::Unlimited => MaxTopicSize::Unlimited,
        MaxSize::Bytes(b) => MaxTopicSize::Custom((*b).into()),
    }
}

fn expiry_from_sdk(e: &IggyExpiry) -> u64 {
    match e {
        IggyExpiry::ServerDefault => u64::MAX,
        IggyExpiry::NeverExpire => 0,
        IggyExpiry::ExpireDuration(d) => d.as_micros(),
    }
}

fn max_size_from_sdk(m: &MaxTopicSize) -> Option<u64> {
    match m {
        MaxTopicSize::ServerDefault => Some(u64::MAX),
        MaxTopicSize::Unlimited => None,
        MaxTopicSize::Custom(b) => Some(b.as_bytes_u64()),
    }
}

pub fn consumer_key(r: &IdRef) -> u32 {
    match r {
        IdRef::Num(n) => *n,
        IdRef::Name(s) => twox_hash::XxHash32::oneshot(0, s.as_bytes()),
    }
}

fn compression_from(code: u8) -> CompressionAlgorithm {
    if code == 2 {
        CompressionAlgorithm::Gzip
    } else {
        CompressionAlgorithm::None
    }
}

impl Harness {
    pub fn new(world: Rc<World>, opts: Opts, clients: usize) -> Harness {
        let knobs = world.knobs.borrow().clone();
        let mut model = Model {
            default_expiry_micros: knobs.default_expiry_micros,
            default_max_size: if knobs.default_max_topic_size == 0 { None } else { Some(knobs.default_max_topic_size) },
            segment_size: knobs.segment_size,
            dedup: knobs.dedup,
            delete_oldest: knobs.delete_oldest_segments,
            ..Default::default()
        };
        model.sessions = (0..clients).map(|_| MSession::default()).collect();
        model.users.insert(
            1,
            MUser {
                id: 1,
                name: crate::world::ROOT_USER.into(),
                password: crate::world::ROOT_PASSWORD.into(),
                active: true,
                perms: None,
                pats: BTreeMap::new(),
                created_at: None,
            },
        );
        Harness {
            sim: world.sim.clone(),
            world,
            model,
            clients: (0..clients).map(|_| None).collect(),
            violations: Vec::new(),
            stats: Stats::default(),
            op_index: 0,
            opts,
            backward_jump: false,
            state_hashes: BTreeSet::new(),
            fatal: false,
            fresh_id: 0,
            snapshot_horizon: None,
            http0: None,
            http_twins: BTreeMap::new(),
            revoked_http_tokens: Vec::new(),
            journal_faults: false,
            journal_fault_met: false,
            http_rng: crate::rng::Rng::substream(0x4854_5450, "http-route"),
            log: Vec::new(),
            verbose: std::env::var("VERIF_VERBOSE").is_ok(),
            key_affinity: BTreeMap::new(),
            rotation: BTreeMap::new(),
            last_ping: BTreeMap::new(),
            connected_at: BTreeMap::new(),
            perm_verdict: None,
            perm_context: String::new(),
            ever_user_ids: [1u32].into_iter().collect(),
            secrets: vec![],
            old_passwords: BTreeMap::new(),
            token_owner: BTreeMap::new(),
            token_expiry: BTreeMap::new(),
            journalled_names: Vec::new(),
        }
    }

    /// Oracles of other properties that a property's own statement includes (e.g. C14: "new messages
    /// continue at the next offset, every message that was not deleted is still served exactly as before").
    /// Under that property's scenario family they are switched on and reported under its id.
    fn borrowed(&self, prop: &str) -> Option<&'static str> {
        const TABLE: [(&str, &[&str]); 10] = [
            ("C06", &["C08"]),
            ("C13", &WIRE_ORACLE_PROPS),
            ("C14", &["C01", "C02", "C03"]),
            ("C15", &["C01", "C16"]),
            ("C18", &["C01", "C02", "C03"]),
            ("C19", &["C02", "C03", "C05"]),
            ("C07", &["C02"]),
            ("C08", &["C02", "C07"]),
            ("C17", &["C01"]),
            ("C10", &["C05"]),
        ];
        for (owner, list) in TABLE {
            if self.opts.props.contains(owner) && list.contains(&prop) {
                return Some(owner);
            }
        }
        None
    }

    pub fn on(&self, prop: &str) -> bool {
        self.opts.props.contains("*") || self.opts.props.contains(prop) || self.borrowed(prop).is_some()
    }

    pub fn violate(&mut self, prop: &'static str, oracle: &'static str, tag: impl Into<String>, detail: impl Into<String>) {
        if !self.on(prop) {
            return;
        }
        let mut tag: String = tag.into();
        let mut prop = prop;
        let mut oracle = oracle;
        if self.journal_faults && self.sim.inner.fs.borrow().fired.iter().any(|f| f.0 == crate::rt::PathClass::StateLog) {
            if !self.journal_fault_met && oracle == "valid_command_fails" {
                // the command that met the injected journal error may fail: what it must not do is change
                // anything, which the audit at the end of this step decides
                self.stats.probe("command_failed_at_the_journal");
                return;
            }
            // what that audit finds carries the cause class
            tag.push_str("@journal_fault");
        }
        if !self.opts.props.contains(prop) && !self.opts.props.contains("*") {
            if let Some(owner) = self.borrowed(prop) {
                // e.g. C13: what the SDK returns must equal what the model predicts from what the SDK was asked
                // to send — every model-equality oracle is a wire-agreement oracle under the C13 value swarm
                tag = format!("{prop}.{oracle}:{tag}");
                if owner == "C13" && oracle != "no_panic" {
                    oracle = "exchange_equals_model";
                }
                prop = owner;
            }
        }
        let v = Violation { prop, oracle, tag, detail: detail.into(), op_index: self.op_index };
        if self.verbose {
            eprintln!("[violation] {v:?}");
        }
        if self.violations.len() < 50 {
            self.violations.push(v);
        }
    }

    /// Judges the permission outcome of the current operation; `false` = stop (refused as it must be,
    /// or a violation has been reported and the model must not be stepped).
    pub fn perm_gate(&mut self, what: &str, result_ok: bool, err: Option<&IggyError>) -> bool {
        use crate::harness_auth::Verdict;
        let unauthorized = matches!(err, Some(IggyError::Unauthorized));
        match self.perm_verdict {
            None => true,
            Some(Verdict::Deny) => {
                if result_ok {
                    self.violate("C09", "no_operation_without_grant", format!("escalation:{what}"), format!("{what} succeeded although no documented rule grants it to this user ({})", self.perm_context));
                    true
                } else {
                    self.stats.probe("ungranted_request_refused");
                    false
                }
            }
            Some(Verdict::Allow) => {
                if !result_ok && unauthorized {
                    // the statement only says "performed only if granted": a refusal of something the
                    // documentation grants is counted, not reported (see DESIGN 4.C09)
                    self.stats.probe("documented_grant_refused");
                    false
                } else {
                    if result_ok {
                        self.stats.probe("granted_request_served");
                    }
                    true
                }
            }
            Some(Verdict::Either) => !(unauthorized && !result_ok),
        }
    }

    /// `perm_gate` for look-ups that answer `None` instead of an error when they refuse.
    pub fn perm_gate_found(&mut self, what: &str, found: bool, result_ok: bool, err: Option<&IggyError>) -> bool {
        use crate::harness_auth::Verdict;
        match self.perm_verdict {
            None => true,
            Some(Verdict::Deny) => {
                if found {
                    self.violate("C09", "no_operation_without_grant", format!("escalation:{what}"), format!("{what} returned data although no documented rule grants it to this user ({})", self.perm_context));
                    true
                } else {
                    self.stats.probe("ungranted_request_refused");
                    false
                }
            }
            Some(Verdict::Allow) => {
                if !found && (result_ok || matches!(err, Some(IggyError::Unauthorized))) {
                    self.stats.probe("documented_grant_refused");
                    false
                } else {
                    if found {
                        self.stats.probe("granted_request_served");
                    }
                    true
                }
            }
            Some(Verdict::Either) => found || !(result_ok || matches!(err, Some(IggyError::Unauthorized))),
        }
    }

    fn note(&mut self, text: String) {
        if self.verbose {
            eprintln!("[op {}] {}", self.op_index, text);
        }
    }

    pub async fn connect_client(&mut self, c: usize, as_root: bool) -> Result<(), IggyError> {
        let client = TcpClient::create(Arc::new(self.world.client_config(false, false)))?;
        Client::connect(&client).await?;
        self.model.sessions[c] = MSession { connected: true, user: 0, client_id: None, deleted_user: None };
        self.connected_at.insert(c, self.sim.now_micros());
        self.last_ping.remove(&c);
        if as_root {
            let (name, password) = self.model.users.get(&1).map(|u| (u.name.clone(), u.password.clone())).unwrap_or((crate::world::ROOT_USER.into(), crate::world::ROOT_PASSWORD.into()));
            client.login_user(&name, &password).await?;
            self.model.sessions[c].user = 1;
        }
        self.clients[c] = Some(client);
        if c == 0 && as_root && self.opts.http_arm {
            // the administrator's HTTP twin: the SDK's HttpClient, logged in as root (JWT)
            self.http0 = None;
            if let Ok(http) = iggy::http::client::HttpClient::create(Arc::new(iggy::http::config::HttpClientConfig { api_url: "http://sim".into(), retries: 0 })) {
                let (name, password) = self.model.users.get(&1).map(|u| (u.name.clone(), u.password.clone())).unwrap_or((crate::world::ROOT_USER.into(), crate::world::ROOT_PASSWORD.into()));
                match http.login_user(&name, &password).await {
                    Ok(_) => {
                        self.http0 = Some(http);
                        self.stats.probe("http_root_login");
                    }
                    Err(e) => self.violate("C10", "only_valid_credentials", "root_http_login_failed", format!("root cannot log in over HTTP with its current password: {e:?}")),
                }
            }
        }
        Ok(())
    }

    /// Does this call of connection `c` go over HTTP? (the administrator only, by a coin of its own stream)
    pub fn http_twin(&self, c: usize) -> Option<&iggy::http::client::HttpClient> {
        if c == 0 {
            self.http0.as_ref()
        } else {
            self.http_twins.get(&c).map(|t| &t.1)
        }
    }

    /// Keeps the HTTP twin of connection `c` logged in as the user the connection's session belongs to (the
    /// model knows every password). A session whose user cannot log in any more (deactivated, deleted) has no
    /// twin: its JWT could not be obtained now.
    async fn sync_http_twin(&mut self, c: usize) {
        if !self.opts.http_arm || c == 0 || self.http0.is_none() {
            return;
        }
        let uid = self.model.sessions.get(c).filter(|s| s.connected).map(|s| s.user).unwrap_or(0);
        if self.http_twins.get(&c).map(|t| t.0) == Some(uid) {
            return;
        }
        self.http_twins.remove(&c);
        let Some(user) = self.model.users.get(&uid).cloned() else { return };
        if !user.active {
            return;
        }
        let Ok(http) = iggy::http::client::HttpClient::create(Arc::new(iggy::http::config::HttpClientConfig { api_url: "http://sim".into(), retries: 0 })) else { return };
        match http.login_user(&user.name, &user.password).await {
            Ok(identity) => {
                if identity.user_id != uid {
                    self.violate("C10", "login_identity", "http_wrong_user_id", format!("HTTP login as {} returned user id {}, model says {uid}", user.name, identity.user_id));
                }
                self.stats.probe("http_user_login");
                self.http_twins.insert(c, (uid, http));
            }
            Err(e) => self.violate("C10", "valid_credentials_accepted", "http_login_refused", format!("HTTP login of active user {} with its current password failed: {e:?}", user.name)),
        }
    }

    pub fn route_http(&mut self, c: usize) -> bool {
        let via_http = self.http_twin(c).is_some() && self.http_rng.chance(0.5);
        if via_http && self.verbose {
            eprintln!("[op {}] -> over HTTP", self.op_index);
        }
        via_http
    }

    fn client(&self, c: usize) -> Option<&TcpClient> {
        self.clients.get(c).and_then(|x| x.as_ref())
    }

    fn session_ready(&self, c: usize) -> bool {
        self.model.sessions.get(c).map(|s| s.connected && s.user != 0).unwrap_or(false) && self.client(c).is_some()
    }

    /// Records panics of server actors as violations of the property that forbids them.
    pub fn check_panics(&mut self, prop: &'static str) {
        for p in self.sim.take_panics() {
            let short: String = p.chars().take(160).collect();
            let tag = panic_tag(&p);
            self.violate(prop, "no_panic", tag, short);
        }
    }

    // ------------------------------------------------------------------------------------------
    // the dispatcher
    // ------------------------------------------------------------------------------------------

    /// One operation under a simulated-time watchdog: simulated time only moves when every actor is
    /// blocked, so a watchdog that fires means the operation can never complete (deadlock, lost wake-up).
    pub async fn step(&mut self, op: &Op) {
        let limit = Duration::from_secs(48 * 3600);
        let finished = tokio::time::timeout(limit, self.step_inner(op)).await.is_ok();
        if !finished {
            let prop: &'static str = crate::profiles::ALL_PROPS.iter().copied().find(|p| self.on(p)).unwrap_or("C06");
            self.violate(prop, "bounded_liveness", format!("never_returns:{}", op.name()), format!("operation {op:?} did not return although nothing else could run any more"));
            self.fatal = true;
        }
    }

    async fn step_inner(&mut self, op: &Op) {
        *self.stats.ops.entry(op.name()).or_insert(0) += 1;
        if self.verbose {
            eprintln!("[op {}] {:?}", self.op_index, op);
        }
        self.perm_verdict = None;
        if let Some(c) = op_client(op) {
            self.sync_http_twin(c).await;
        }
        if let Some(c) = op_client(op) {
            let user = self.model.sessions.get(c).map(|s| s.user).unwrap_or(0);
            if user > 1 {
                if let Some(need) = crate::harness_auth::need_of(&self.model, op, user) {
                    let perms = self.model.users.get(&user).and_then(|u| u.perms.clone());
                    self.perm_verdict = Some(crate::harness_auth::verdict_for(&perms, need));
                    self.perm_context = format!("need {need:?}; user {user} record: {}", crate::snapshot::canon_permissions(&perms.as_ref().map(crate::harness_auth::to_sdk_permissions)));
                }
            }
        }
        if !matches!(op, Op::Send { .. } | Op::Poll { .. } | Op::StoreOffset { .. } | Op::GetOffset { .. } | Op::DeleteOffset { .. } | Op::Tick(_) | Op::Flush { .. } | Op::Settle) {
            // anything else may change memberships or partitions: a member's current partition is unknown again
            self.model.member_current.clear();
        }
        match op {
            Op::Send { c, stream, topic, part, msgs } => self.op_send(*c, stream, topic, part, msgs).await,
            Op::SendThenRestart { stream, topic, partition, msgs, kind } => self.op_send_then_restart(stream, topic, *partition, msgs, *kind).await,
            Op::SendThenPurge { stream, topic, partition, msgs } => {
                if self.session_ready(0) && self.model.topic_ids(stream, topic).is_some() {
                    let mut messages: Vec<Message> = msgs.iter().map(|m| m.to_message()).collect();
                    let client = self.client(0).unwrap();
                    let sent = client.send_messages(&stream.to_identifier(), &topic.to_identifier(), &Partitioning::partition_id(*partition), &mut messages).await;
                    // no settle: the purge meets whatever the send left in flight
                    let purged = client.purge_topic(&stream.to_identifier(), &topic.to_identifier()).await;
                    self.sim.settle().await;
                    let (sid, tid) = self.model.topic_ids(stream, topic).unwrap();
                    if purged.is_ok() {
                        for p in self.model.streams.get_mut(&sid).unwrap().topics.get_mut(&tid).unwrap().partitions.values_mut() {
                            crate::harness_cat::purge_partition_model(p);
                            // the deduplicator may remember the ids of the purged send
                            p.purged_ids.extend(msgs.iter().map(|m| m.id).filter(|i| *i != 0));
                        }
                        self.stats.probe("send_then_purge_done");
                    } else {
                        // the send (if accepted) is not in the model: its partition is uncertain from here on
                        if sent.is_ok() {
                            self.mark_tainted(sid, tid);
                        }
                        self.violate("C06", "valid_command_fails", "purge_topic_after_send", format!("purge of {sid}/{tid} right after a send failed: {:?}", purged.err()));
                    }
                }
            }
            Op::Poll { c, stream, topic, partition, who, kind, count, auto_commit } => {
                self.op_poll(*c, stream, topic, *partition, who, kind, *count, *auto_commit).await
            }
            Op::Flush { c, stream, topic, partition, fsync } => self.op_flush(*c, stream, topic, *partition, *fsync).await,
            Op::StoreOffset { c, stream, topic, partition, who, offset } => {
                self.op_store_offset(*c, stream, topic, *partition, who, *offset).await
            }
            Op::GetOffset { c, stream, topic, partition, who } => self.op_get_offset(*c, stream, topic, *partition, who).await,
            Op::DeleteOffset { c, stream, topic, partition, who } => self.op_delete_offset(*c, stream, topic, *partition, who).await,
            Op::Tick(micros) => {
                self.sim.sleep(Duration::from_micros(*micros)).await;
            }
            Op::Jump(micros) => {
                self.sim.sleep(Duration::from_micros(*micros)).await;
            }
            Op::BackJump(micros) => {
                self.backward_jump = true;
                self.sim.jump_wall_clock(-(*micros as i64));
            }
            Op::RunJob(job) => self.op_run_job(*job).await,
            Op::Settle => self.sim.settle().await,
            Op::Restart(kind) => self.op_restart(*kind, false).await,
            Op::RestartLosingIndexes(kind) => self.op_restart(*kind, true).await,
            Op::Audit => self.audit().await,
            Op::RestartKeyMismatch { off } => self.op_restart_key_mismatch(*off).await,
            Op::UnauthProbe { which } => crate::harness_wire::unauth_probe(self, *which).await,
            Op::Garbage { seed } => crate::harness_wire::garbage(self, *seed).await,
            Op::Connect { c } => {
                if self.clients[*c].is_none() && self.world.is_up() {
                    let _ = self.connect_client(*c, true).await;
                }
            }
            Op::Disconnect { c } => {
                if let Some(id) = self.model.sessions[*c].client_id {
                    crate::harness_grp::forget_client(self, id);
                } else if self.model.sessions[*c].connected {
                    // memberships of a connection whose id was never learned: it joined nothing
                }
                self.clients[*c] = None;
                self.model.sessions[*c] = MSession::default();
                self.sim.settle().await;
            }
            other => crate::harness_cat::step_cat(self, other).await,
        }
        if self.opts.settle_each {
            self.sim.settle().await;
        }
        self.check_panics("C06");
        // connection health: a connection the server has closed (handler panic, eviction, deleted user)
        // is noticed here, so that later operations are not judged against a dead pipe
        if let Some(c) = op_client(op) {
            if c < self.clients.len() && self.clients[c].is_some() && self.model.sessions[c].connected && self.world.is_up() {
                let alive = self.clients[c].as_ref().unwrap().ping().await.is_ok();
                if alive {
                    let now = self.sim.now_micros();
                    self.last_ping.insert(c, now);
                } else {
                    self.stats.probe("connection_found_dead");
                    if let Some(id) = self.model.sessions[c].client_id {
                        crate::harness_grp::forget_client(self, id);
                    }
                    self.clients[c] = None;
                    self.model.sessions[c] = MSession::default();
                    self.sim.settle().await;
                    if c == 0 {
                        let _ = self.connect_client(0, true).await;
                    }
                }
            }
        }
        if self.journal_faults && !self.journal_fault_met && self.sim.inner.fs.borrow().fired.iter().any(|f| f.0 == crate::rt::PathClass::StateLog) {
            // journal-fault arm: the first operation that met an injected journal error is judged at once by a
            // full audit against the model (in which a refused command changed nothing), and the history ends
            // there: a model cannot follow a server whose memory and journal disagree
            self.journal_fault_met = true;
            self.sim.arm_faults(false);
            self.stats.probe("audit_after_journal_fault");
            self.audit().await;
            self.fatal = true;
        }
        self.state_hashes.insert(self.model.state_hash());
        self.op_index += 1;
    }

    // ------------------------------------------------------------------------------------------
    // data path
    // ------------------------------------------------------------------------------------------

    async fn op_send(&mut self, c: usize, stream: &IdRef, topic: &IdRef, part: &Part, msgs: &[MsgSpec]) {
        if !self.session_ready(c) {
            return;
        }
        let partitioning = match part {
            Part::Balanced => Partitioning::balanced(),
            Part::Id(p) => Partitioning::partition_id(*p),
            Part::Key(k) => Partitioning::messages_key(k).unwrap_or_else(|_| Partitioning::balanced()),
        };
        let ids = self.model.topic_ids(stream, topic);
        // C15: is the topic full (by the size the server itself reports) before this send?
        let mut full_before: Option<bool> = None;
        if self.opts.check_size_limit {
            if let Some(t) = self.model.topic(stream, topic) {
                if let Some(limit) = t.max_size {
                    let client = self.client(c).unwrap();
                    if let Ok(Some(details)) = client.get_topic(&stream.to_identifier(), &topic.to_identifier()).await {
                        full_before = Some(details.size.as_bytes_u64() >= limit);
                    }
                }
            }
        }
        // C18 says nothing about an id whose only stored copy was purged or deleted by retention (the server
        // remembers it until the next restart and forgets it afterwards): such an id is not sent again
        let rewritten: Vec<MsgSpec>;
        let msgs = if self.model.dedup && ids.is_some() {
            let (sid, tid) = ids.unwrap();
            let t = &self.model.streams[&sid].topics[&tid];
            let mut uncertain: BTreeSet<u128> = BTreeSet::new();
            for p in t.partitions.values() {
                uncertain.extend(p.purged_ids.iter().copied());
                uncertain.extend(p.msgs.iter().take(p.first_retained as usize).map(|m| m.id));
            }
            let mut fresh = self.fresh_id;
            rewritten = msgs
                .iter()
                .map(|m| {
                    let mut m = m.clone();
                    if m.id != 0 && uncertain.contains(&m.id) {
                        fresh += 1;
                        m.id = (1u128 << 100) + fresh as u128;
                        self.stats.probe("dedup_uncertain_id_replaced");
                    }
                    m
                })
                .collect();
            self.fresh_id = fresh;
            &rewritten[..]
        } else {
            msgs
        };
        let mut messages: Vec<Message> = msgs.iter().map(|m| m.to_message()).collect();
        let lo = self.sim.now_micros();
        let seq0 = self.sim.steps();
        let fired_before = self.sim.inner.fs.borrow().fired.len();
        if self.opts.disk_faults {
            self.sim.arm_faults(true);
        }
        let result = if self.route_http(c) {
            self.stats.probe("request_via_http");
            self.stats.probe("send_via_http");
            normalize_http(self.http_twin(c).unwrap().send_messages(&stream.to_identifier(), &topic.to_identifier(), &partitioning, &mut messages).await)
        } else {
            self.client(c).unwrap().send_messages(&stream.to_identifier(), &topic.to_identifier(), &partitioning, &mut messages).await
        };
        let seq1 = self.sim.steps();
        if self.opts.settle_each {
            self.sim.settle().await;
        }
        let hi = self.sim.now_micros();
        if self.verbose {
            eprintln!("[op {}] send result {:?}, faults fired {}", self.op_index, result.as_ref().err(), self.sim.inner.fs.borrow().fired.len() - fired_before);
        }
        if self.opts.disk_faults {
            self.sim.arm_faults(false);
            if self.sim.inner.fs.borrow().fired.len() > fired_before {
                // a disk fault hit this send (or the background work it started): judged by the relaxed rule
                self.stats.probe("send_hit_by_disk_fault");
                if let Some((sid, tid)) = ids {
                    self.resync_after_disk_fault(sid, tid, Some((msgs, part, ok(&result), lo, hi, (seq0, seq1)))).await;
                }
                return;
            }
        }
        if !self.perm_gate("send_messages", result.is_ok(), result.as_ref().err()) {
            return;
        }
        if ok(&result) {
            *self.stats.ops_ok.entry("send").or_insert(0) += 1;
        }
        let Some((sid, tid)) = ids else {
            if ok(&result) {
                self.violate("C06", "send_unknown_topic", "accepted", format!("send to unknown {stream:?}/{topic:?} accepted"));
            }
            return;
        };
        let topic_model = self.model.streams[&sid].topics[&tid].clone();
        let partition_ids: Vec<u32> = topic_model.partitions.keys().copied().collect();
        // ---- expected outcome
        let mut expect_ok = !msgs.is_empty() && !partition_ids.is_empty();
        let total_payload: u64 = msgs.iter().map(|m| m.len as u64).sum();
        if total_payload == 0 {
            expect_ok = false;
        }
        if let Part::Id(p) = part {
            if !topic_model.partitions.contains_key(p) {
                expect_ok = false;
                if ok(&result) {
                    self.violate("C17", "explicit_partition_missing", "accepted", format!("send to missing partition {p} of {sid}/{tid} was accepted"));
                }
            }
        }
        if let Part::Key(k) = part {
            if k.is_empty() || k.len() > 255 {
                expect_ok = false;
            }
        }
        if let Some(full) = full_before {
            let limited_refuses = full && !self.model.delete_oldest;
            if limited_refuses {
                expect_ok = false;
                match &result {
                    Ok(_) => self.violate("C15", "full_topic_refuses", "accepted_when_full", format!("topic {sid}/{tid} at/above its limit with deletion disabled accepted a send")),
                    Err(IggyError::TopicFull(_, _)) => self.stats.probe("topic_full_refused"),
                    Err(_) => {}
                }
            } else if expect_ok {
                if let Err(IggyError::TopicFull(_, _)) = &result {
                    self.violate("C15", "not_full_accepts", if full { "refused_with_deletion_enabled" } else { "refused_below_limit" }, format!("topic {sid}/{tid} refused a send (full={full}, delete_oldest={})", self.model.delete_oldest));
                    // the refusal is the defect; nothing was stored, keep the model unchanged
                    self.verify_nothing_stored(c, sid, tid, &partition_ids, msgs).await;
                    return;
                }
            }
        }
        if expect_ok && full_before.is_none() && matches!(result, Err(IggyError::TopicFull(_, _))) && self.model.streams[&sid].topics[&tid].max_size.is_some() && !self.model.delete_oldest {
            // a size-limited topic may be full; whether it is, is judged by C15's check only
            return;
        }
        if expect_ok && !matches!(part, Part::Id(_)) {
            if let Err(IggyError::PartitionNotFound(p, _, _)) = &result {
                // C17: a balanced or keyed send always lands on an existing partition
                self.violate("C17", "selected_partition_exists", if matches!(part, Part::Balanced) { "balanced_send_hits_missing_partition" } else { "keyed_send_hits_missing_partition" }, format!("send to {sid}/{tid} {part:?} was refused with PartitionNotFound({p}, ..) although the topic has {} partitions", partition_ids.len()));
            }
        }
        if expect_ok && !ok(&result) {
            self.violate("C06", "valid_send_fails", format!("{:?}", result.as_ref().err().map(|e| e.as_string())), format!("valid send to {sid}/{tid} {part:?} failed: {:?}", result.as_ref().err()));
        }
        // ---- where did it land? read the tail of every candidate partition
        let candidates: Vec<u32> = match part {
            Part::Id(p) if topic_model.partitions.contains_key(p) => vec![*p],
            _ => partition_ids.clone(),
        };
        let sent_ids: BTreeSet<u128> = msgs.iter().map(|m| m.id).filter(|i| *i != 0).collect();
        let mut landed: Vec<(u32, PolledMessages)> = Vec::new();
        let mut offset_advanced: Vec<u32> = Vec::new();
        for p in &partition_ids {
            let pm = &topic_model.partitions[p];
            if pm.tainted && !candidates.contains(p) {
                // its content is uncertain (an earlier fault or an unfaithful restart): it cannot tell where
                // this send went
                continue;
            }
            let from = pm.msgs.len() as u64;
            // observed through the administrator's connection: the sender may not be allowed to poll
            let client = match self.client(0) {
                Some(admin) => admin,
                None => self.client(c).unwrap(),
            };
            let polled = client
                .poll_messages(&IdRef::Num(sid).to_identifier(), &IdRef::Num(tid).to_identifier(), Some(*p), &Consumer::default(), &PollingStrategy::offset(from), msgs.len().max(1) as u32 + 1, false)
                .await;
            if let Ok(polled) = polled {
                let has_new = polled.messages.iter().any(|m| sent_ids.contains(&m.id) || m.offset >= from);
                if polled.current_offset > pm.current_offset() || (pm.msgs.is_empty() && has_new) {
                    offset_advanced.push(*p);
                }
                if has_new {
                    landed.push((*p, polled));
                }
            }
        }
        let mut targets: BTreeSet<u32> = landed.iter().map(|(p, _)| *p).collect();
        targets.extend(offset_advanced.iter().copied());
        if self.verbose {
            eprintln!("[op {}] landed in {:?}, candidates {:?}, model lens {:?}", self.op_index, targets, candidates, topic_model.partitions.iter().map(|(k, v)| (*k, v.msgs.len(), v.tainted)).collect::<Vec<_>>());
        }
        if !ok(&result) {
            if !targets.is_empty() {
                self.violate("C01", "rejected_send_consumes_nothing", "stored_after_error", format!("send failed with {:?} but partitions {targets:?} of {sid}/{tid} advanced", result.as_ref().err()));
            }
            return;
        }
        if !expect_ok {
            // accepted although the model expected a refusal: already reported where a property says so
            if targets.is_empty() {
                return;
            }
        }
        if targets.len() > 1 {
            self.violate("C17", "one_send_one_partition", "several_partitions", format!("one send landed in partitions {targets:?} of {sid}/{tid}"));
        }
        for t in &targets {
            if !candidates.contains(t) {
                self.violate("C17", "explicit_partition_exact", "wrong_partition", format!("send addressed to {part:?} landed in partition {t}"));
            }
        }
        let Some(target) = targets.iter().next().copied() else {
            // accepted, but nothing visible anywhere
            // with deduplication on, a send whose every id is already stored in the partition it went to
            // legitimately leaves no trace
            let accepted = candidates.iter().map(|p| self.dedup_filter(sid, tid, Some(*p), msgs)).min().unwrap_or(msgs.len());
            if accepted == 0 && self.model.dedup {
                self.stats.probe("dedup_whole_send_dropped");
            }
            let tainted = match part {
                Part::Id(p) => topic_model.partitions.get(p).map(|x| x.tainted).unwrap_or(false),
                _ => topic_model.partitions.values().any(|x| x.tainted),
            };
            if accepted > 0 && !tainted {
                self.violate("C02", "tail_visible_after_ack", "nothing_visible", format!("send of {} messages to {sid}/{tid} {part:?} acknowledged, no partition shows them", msgs.len()));
                // keep the model in step if the destination is unambiguous
                if let Part::Id(p) = part {
                    self.model_append(sid, tid, *p, msgs, lo, hi, (seq0, seq1));
                } else {
                    self.mark_tainted(sid, tid);
                }
            }
            return;
        };
        // ---- C17 bookkeeping
        match part {
            Part::Key(k) => {
                self.check_key_affinity(sid, tid, k, target, partition_ids.len() as u32);
            }
            Part::Balanced => {
                let t = self.model.streams.get_mut(&sid).unwrap().topics.get_mut(&tid).unwrap();
                t.balanced_history.push(target);
                self.check_balanced_rotation(sid, tid);
            }
            Part::Id(_) => {}
        }
        // ---- step the model and compare the tail
        let base = self.model.streams[&sid].topics[&tid].partitions[&target].msgs.len() as u64;
        let appended = self.model_append(sid, tid, target, msgs, lo, hi, (seq0, seq1));
        if let Some((_, polled)) = landed.iter().find(|(p, _)| *p == target) {
            let expect: Vec<u64> = (base..base + appended as u64).collect();
            let polled = PolledMessages { partition_id: polled.partition_id, current_offset: polled.current_offset, messages: clone_messages(&polled.messages) };
            self.compare_poll(sid, tid, target, &PollExpectation { primary: expect, alternative: None }, &polled, "tail_after_send");
        } else if appended > 0 && !topic_model.partitions[&target].tainted {
            self.violate("C02", "tail_visible_after_ack", "tail_missing", format!("partition {target} of {sid}/{tid} advanced but the tail poll returned none of the new messages"));
        }
    }

    async fn verify_nothing_stored(&mut self, c: usize, sid: u32, tid: u32, partition_ids: &[u32], msgs: &[MsgSpec]) {
        let sent_ids: BTreeSet<u128> = msgs.iter().map(|m| m.id).filter(|i| *i != 0).collect();
        for p in partition_ids {
            let from = self.model.streams[&sid].topics[&tid].partitions[p].msgs.len() as u64;
            let client = self.client(c).unwrap();
            if let Ok(polled) = client
                .poll_messages(&IdRef::Num(sid).to_identifier(), &IdRef::Num(tid).to_identifier(), Some(*p), &Consumer::default(), &PollingStrategy::offset(from), 10, false)
                .await
            {
                if polled.messages.iter().any(|m| sent_ids.contains(&m.id)) {
                    self.violate("C15", "refused_send_changes_nothing", "stored_after_topic_full", format!("refused send left messages in partition {p}"));
                }
            }
        }
    }

    /// After an operation that an injected disk error hit, the comparison is relaxed deliberately and narrowly
    /// (the fault-free runs keep the exact oracles): the operation may have failed, and the messages of a send
    /// that was *not acknowledged* may be stored completely, partly (a prefix, in order) or not at all. What
    /// still has to hold: every message acknowledged before is still served unchanged at its offset, offsets stay
    /// consecutive, an acknowledged send is stored completely, nothing foreign appears, and the reported current
    /// offset is the last served one. The model then adopts what the partition holds.
    #[allow(clippy::type_complexity)]
    async fn resync_after_disk_fault(&mut self, sid: u32, tid: u32, sent: Option<(&[MsgSpec], &Part, bool, u64, u64, (u64, u64))>) {
        self.sim.settle().await;
        let Some(topic) = self.model.streams.get(&sid).and_then(|s| s.topics.get(&tid)).cloned() else { return };
        let target: Option<u32> = match sent {
            Some((_, Part::Id(p), ..)) => Some(*p),
            _ => None,
        };
        for (pid, pm) in &topic.partitions {
            if pm.tainted {
                continue;
            }
            let from = pm.first_retained;
            let Some(client) = self.client(0) else { return };
            let polled = client.poll_messages(&IdRef::Num(sid).to_identifier(), &IdRef::Num(tid).to_identifier(), Some(*pid), &Consumer::default(), &PollingStrategy::offset(from), pm.msgs.len() as u32 + 1000, false).await;
            let polled = match polled {
                Ok(p) => p,
                Err(e) => {
                    self.violate("C02", "readable_after_disk_error", "poll_error@disk_fault", format!("partition {sid}/{tid}/{pid} cannot be read after an operation hit by a disk error: {e:?}"));
                    self.mark_tainted(sid, tid);
                    return;
                }
            };
            let offsets: Vec<u64> = polled.messages.iter().map(|m| m.offset).collect();
            let consecutive = offsets.iter().enumerate().all(|(i, o)| *o == from + i as u64);
            if !consecutive {
                self.violate("C01", "full_read_unique_ordered", "gap_or_repeat@disk_fault", format!("partition {sid}/{tid}/{pid} after a disk error serves {}", brief(&offsets)));
                self.mark_tainted(sid, tid);
                return;
            }
            // everything acknowledged before is still there, unchanged
            let known = pm.msgs.len() as u64 - from.min(pm.msgs.len() as u64);
            if (polled.messages.len() as u64) < known {
                self.violate("C02", "acknowledged_survive_disk_error", "acknowledged_messages_lost@disk_fault", format!("partition {sid}/{tid}/{pid} held offsets {from}..={} (all acknowledged); after an operation hit by a disk error it serves {}", pm.msgs.len().saturating_sub(1), brief(&offsets)));
                self.mark_tainted(sid, tid);
                return;
            }
            let mut altered = false;
            for m in polled.messages.iter().take(known as usize) {
                let mm = &pm.msgs[m.offset as usize];
                if (mm.id_known && mm.id != m.id) || mm.payload != m.payload.as_ref() {
                    altered = true;
                    self.violate("C02", "content", "altered@disk_fault", format!("partition {sid}/{tid}/{pid} offset {}: acknowledged message changed after a disk error (id {} vs {})", m.offset, m.id, mm.id));
                    break;
                }
            }
            if altered {
                self.mark_tainted(sid, tid);
                return;
            }
            // what is new: only messages of the send in question, in order, as a prefix
            let extras: Vec<&iggy::models::messages::PolledMessage> = polled.messages.iter().skip(known as usize).collect();
            let allowed: &[MsgSpec] = match (&sent, target) {
                (Some((msgs, ..)), Some(p)) if p == *pid => msgs,
                // not addressed to an explicit partition: any partition may have received (a prefix of) it
                (Some((msgs, ..)), None) => msgs,
                _ => &[],
            };
            if self.verbose {
                eprintln!("[resync] {sid}/{tid}/{pid}: from {from}, model {} msgs, served {:?}, extras ids {:?}, allowed ids {:?}", pm.msgs.len(), brief(&offsets), extras.iter().map(|m| m.id).collect::<Vec<_>>(), allowed.iter().map(|m| m.id).collect::<Vec<_>>());
            }
            let prefix_ok = extras.len() <= allowed.len() && extras.iter().zip(allowed.iter()).all(|(got, want)| (want.id == 0 || got.id == want.id) && got.payload.as_ref() == want.payload().as_slice());
            if !prefix_ok {
                self.violate("C01", "nothing_foreign_after_disk_error", "unexpected_messages@disk_fault", format!("partition {sid}/{tid}/{pid}: after an operation hit by a disk error {} new messages appeared that are not a prefix of the send in question ({} sent)", extras.len(), allowed.len()));
                self.mark_tainted(sid, tid);
                return;
            }
            if let (Some((msgs, _, true, ..)), Some(p)) = (&sent, target) {
                if p == *pid && extras.len() < msgs.len() {
                    self.violate("C02", "acknowledged_survive_disk_error", "acknowledged_send_incomplete@disk_fault", format!("partition {sid}/{tid}/{pid}: a send of {} messages was acknowledged although a disk error hit it; {} of them are stored", msgs.len(), extras.len()));
                }
            }
            if !polled.messages.is_empty() && polled.current_offset != *offsets.last().unwrap() {
                self.violate("C01", "current_offset", "differs_from_last_served@disk_fault", format!("partition {sid}/{tid}/{pid} reports current offset {} and serves up to {}", polled.current_offset, offsets.last().unwrap()));
            }
            // adopt
            if !extras.is_empty() {
                if let Some((msgs, _, _, lo, hi, seq)) = &sent {
                    let n = extras.len();
                    self.model_append(sid, tid, *pid, &msgs[..n], *lo, *hi, *seq);
                    self.stats.probe("partial_or_full_effect_of_faulted_send_adopted");
                }
            }
        }
        // a send that was not addressed to an explicit partition: where its messages went is not tracked here
        if matches!(sent, Some((_, part, ..)) if !matches!(part, Part::Id(_))) {
            self.mark_tainted(sid, tid);
        }
    }

    /// How many of `msgs` the dedup filter lets through (and which), without changing the model.
    fn dedup_filter(&self, sid: u32, tid: u32, partition: Option<u32>, msgs: &[MsgSpec]) -> usize {
        if !self.model.dedup {
            return msgs.len();
        }
        let mut seen: BTreeSet<u128> = match partition {
            Some(p) => self.model.streams[&sid].topics[&tid].partitions[&p].dedup_ids.clone(),
            None => BTreeSet::new(),
        };
        msgs.iter().filter(|m| m.id == 0 || seen.insert(m.id)).count()
    }

    fn mark_tainted(&mut self, sid: u32, tid: u32) {
        if let Some(t) = self.model.streams.get_mut(&sid).and_then(|s| s.topics.get_mut(&tid)) {
            for p in t.partitions.values_mut() {
                p.tainted = true;
            }
        }
    }

    fn model_append(&mut self, sid: u32, tid: u32, partition: u32, msgs: &[MsgSpec], lo: u64, hi: u64, seq: (u64, u64)) -> usize {
        let dedup = self.model.dedup;
        let p = self.model.streams.get_mut(&sid).unwrap().topics.get_mut(&tid).unwrap().partitions.get_mut(&partition).unwrap();
        let mut appended = 0;
        for m in msgs {
            if dedup && m.id != 0 && !p.dedup_ids.insert(m.id) {
                continue;
            }
            p.msgs.push(MMsg {
                id: m.id,
                id_known: m.id != 0,
                payload: m.payload(),
                headers: m.canon_headers(),
                ts: None,
                ts_lo: lo,
                ts_hi: hi,
                checksum: None,
                send_seq: seq,
            });
            appended += 1;
        }
        appended
    }

    fn check_key_affinity(&mut self, sid: u32, tid: u32, key: &[u8], target: u32, count: u32) {
        // same key and same partition count => same partition (learned, the hash is not re-implemented)
        let k = (sid, tid, key.to_vec(), count);
        match self.key_map().get(&k).copied() {
            Some(previous) if previous != target => {
                self.violate("C17", "key_affinity", "key_moved", format!("key {key:?} with {count} partitions went to {previous} before and {target} now"));
            }
            Some(_) => self.stats.probe("key_repeated"),
            None => {
                self.key_map().insert(k, target);
            }
        }
    }

    fn key_map(&mut self) -> &mut BTreeMap<(u32, u32, Vec<u8>, u32), u32> {
        &mut self.key_affinity
    }

    fn check_balanced_rotation(&mut self, sid: u32, tid: u32) {
        // over the window since the last partition-count change / restart, counts differ by <= 1
        let t = &self.model.streams[&sid].topics[&tid];
        let n = t.partitions.len();
        if n == 0 {
            return;
        }
        let mut counts: BTreeMap<u32, u64> = t.partitions.keys().map(|p| (*p, 0)).collect();
        for p in &t.balanced_history {
            *counts.entry(*p).or_insert(0) += 1;
        }
        let max = counts.values().max().copied().unwrap_or(0);
        let min = counts.values().min().copied().unwrap_or(0);
        if t.balanced_history.len() >= 2 {
            self.stats.probe("balanced_window_ge2");
        }
        if max - min > 1 {
            let h = t.balanced_history.clone();
            self.violate("C17", "balanced_rotation", "uneven", format!("balanced sends since the last partition change visited {h:?} over {n} partitions"));
        }
    }

    #[allow(clippy::too_many_arguments)]
    async fn op_poll(&mut self, c: usize, stream: &IdRef, topic: &IdRef, partition: Option<u32>, who: &Who, kind: &PollKind, count: u32, auto_commit: bool) {
        if !self.session_ready(c) {
            return;
        }
        if matches!(who, Who::Group(_)) && partition.is_none() {
            // the member's cursor moves whether or not the response arrives; re-learnt from the response below
            if let Some(id) = self.model.sessions[c].client_id {
                self.model.member_current.retain(|k, _| k.3 != id);
            }
        }
        let consumer = match who {
            Who::Consumer(r) => Consumer::new(r.to_identifier()),
            Who::Group(r) => Consumer::group(r.to_identifier()),
        };
        let strategy = match kind {
            PollKind::Offset(o) => PollingStrategy::offset(*o),
            PollKind::Timestamp(t) => PollingStrategy::timestamp(IggyTimestamp::from(*t)),
            PollKind::First => PollingStrategy::first(),
            PollKind::Last => PollingStrategy::last(),
            PollKind::Next => PollingStrategy::next(),
        };
        let result = if matches!(who, Who::Consumer(_)) && self.route_http(c) {
            self.stats.probe("request_via_http");
            self.stats.probe("poll_via_http");
            normalize_http(self.http_twin(c).unwrap().poll_messages(&stream.to_identifier(), &topic.to_identifier(), partition, &consumer, &strategy, count, auto_commit).await)
        } else {
            self.client(c).unwrap().poll_messages(&stream.to_identifier(), &topic.to_identifier(), partition, &consumer, &strategy, count, auto_commit).await
        };
        if !self.perm_gate("poll_messages", result.is_ok(), result.as_ref().err()) {
            return;
        }
        let Some((sid, tid)) = self.model.topic_ids(stream, topic) else {
            if ok(&result) {
                self.violate("C06", "poll_unknown_topic", "accepted", format!("poll of unknown {stream:?}/{topic:?} succeeded"));
            }
            return;
        };
        let tm = &self.model.streams[&sid].topics[&tid];
        if tm.partitions.is_empty() || count == 0 {
            if ok(&result) && count == 0 {
                // count 0 is documented as invalid by the server itself; nothing to compare
            }
            return;
        }
        match who {
            Who::Consumer(r) => {
                let p = partition.unwrap_or(1);
                if !tm.partitions.contains_key(&p) {
                    if ok(&result) {
                        self.violate("C06", "poll_unknown_partition", "accepted", format!("poll of missing partition {p} succeeded"));
                    }
                    return;
                }
                let key = consumer_key(r);
                let Ok(polled) = result else {
                    self.violate("C02", "poll_fails", "error", format!("poll {kind:?} count {count} on {sid}/{tid}/{p} failed: {:?}", result.err()));
                    return;
                };
                *self.stats.ops_ok.entry("poll").or_insert(0) += 1;
                let stored = tm.partitions[&p].consumer_offsets.get(&key).copied();
                self.judge_poll(sid, tid, p, kind, count, stored, &polled, "poll");
                if auto_commit {
                    if let Some(last) = polled.messages.last() {
                        let pm = self.pm(sid, tid, p);
                        pm.consumer_offsets.insert(key, last.offset);
                    }
                }
                if polled.partition_id != p {
                    self.violate("C02", "poll_partition_id", "wrong_partition_id", format!("asked partition {p}, response says {}", polled.partition_id));
                }
            }
            Who::Group(g) => {
                crate::harness_cat::poll_as_group(self, c, sid, tid, partition, g, kind, count, auto_commit, result).await;
            }
        }
    }

    pub fn pm(&mut self, sid: u32, tid: u32, p: u32) -> &mut MPartition {
        self.model.streams.get_mut(&sid).unwrap().topics.get_mut(&tid).unwrap().partitions.get_mut(&p).unwrap()
    }

    #[allow(clippy::too_many_arguments)]
    pub fn judge_poll(&mut self, sid: u32, tid: u32, p: u32, kind: &PollKind, count: u32, stored: Option<u64>, polled: &PolledMessages, site: &'static str) {
        let pm = self.model.streams[&sid].topics[&tid].partitions[&p].clone();
        if pm.tainted {
            return;
        }
        let expectation = match kind {
            PollKind::Offset(o) => Some(expect_by_offset(&pm, *o, count)),
            PollKind::First => Some(expect_by_offset(&pm, 0, count)),
            PollKind::Last => Some(expect_last(&pm, count)),
            PollKind::Next => Some(match stored {
                None => expect_by_offset(&pm, 0, count),
                Some(s) if s >= pm.current_offset() => PollExpectation { primary: vec![], alternative: None },
                Some(s) => expect_by_offset(&pm, s + 1, count),
            }),
            PollKind::Timestamp(t) => {
                if self.opts.check_timestamps && !self.backward_jump {
                    expect_by_timestamp(&pm, *t, count)
                } else {
                    None
                }
            }
        };
        if let Some(expectation) = expectation {
            self.compare_poll(sid, tid, p, &expectation, polled, site);
        }
    }

    /// Field-by-field comparison of a poll result with the model slice.
    pub fn compare_poll(&mut self, sid: u32, tid: u32, p: u32, expectation: &PollExpectation, polled: &PolledMessages, site: &'static str) {
        if self.model.streams[&sid].topics[&tid].partitions[&p].tainted {
            return;
        }
        self.stats.polls_compared += 1;
        let got: Vec<u64> = polled.messages.iter().map(|m| m.offset).collect();
        let pm_current = self.model.streams[&sid].topics[&tid].partitions[&p].current_offset();
        let first_retained = self.model.streams[&sid].topics[&tid].partitions[&p].first_retained;
        if polled.current_offset != pm_current {
            self.violate("C01", "current_offset", if polled.current_offset > pm_current { "ahead" } else { "behind" }, format!("{site}: partition {sid}/{tid}/{p} reports current offset {}, model says {pm_current}", polled.current_offset));
        }
        let mut matches = got == expectation.primary;
        if !matches {
            if let Some(alt) = &expectation.alternative {
                matches = &got == alt;
            }
        }
        // messages of segments removed by retention may still be served from the message cache
        if !matches && self.opts.message_cache && got.first().map(|o| *o < first_retained).unwrap_or(false) {
            self.stats.probe("served_below_retention_from_cache");
            matches = true;
        }
        if !matches {
            let want = &expectation.primary;
            let tag = if got.windows(2).any(|w| w[1] != w[0] + 1) {
                "holes_or_disorder"
            } else if got.len() < want.len() {
                if got.is_empty() { "empty_instead_of_data" } else { "fewer_than_available" }
            } else if got.len() > want.len() {
                "more_than_requested"
            } else {
                "wrong_range"
            };
            self.violate("C02", "slice_equality", tag, format!("{site}: partition {sid}/{tid}/{p}: got offsets {} want {}", brief(&got), brief(want)));
        }
        // content of every returned message that the model knows
        for m in &polled.messages {
            self.stats.messages_compared += 1;
            let pm = self.model.streams.get_mut(&sid).unwrap().topics.get_mut(&tid).unwrap().partitions.get_mut(&p).unwrap();
            let Some(mm) = pm.msgs.get_mut(m.offset as usize) else {
                let detail = format!("{site}: partition {sid}/{tid}/{p} served offset {} beyond the model's end {}", m.offset, pm.msgs.len());
                self.violate("C01", "offset_id_binding", "offset_beyond_end", detail);
                continue;
            };
            let mut problems: Vec<(&'static str, &'static str, &'static str, String)> = Vec::new();
            if mm.id_known {
                if mm.id != m.id {
                    problems.push(("C01", "offset_id_binding", "wrong_message_at_offset", format!("offset {} holds id {} instead of {}", m.offset, m.id, mm.id)));
                }
            } else {
                mm.id = m.id;
                mm.id_known = true;
            }
            if !self.opts.encryption || true {
                if mm.payload != m.payload.as_ref() {
                    problems.push(("C02", "content", "payload_differs", format!("offset {}: payload differs ({} vs {} bytes)", m.offset, m.payload.len(), mm.payload.len())));
                }
            }
            let headers = canon_headers_of(&m.headers);
            if headers != mm.headers {
                problems.push(("C02", "content", "headers_differ", format!("offset {}: headers differ", m.offset)));
            }
            match mm.checksum {
                Some(c) if c != m.checksum => problems.push(("C02", "content", "checksum_changed", format!("offset {}: checksum {} then {}", m.offset, c, m.checksum))),
                Some(_) => {}
                None => {
                    mm.checksum = Some(m.checksum);
                    if !self.opts.encryption && iggy::utils::checksum::calculate(&mm.payload) != m.checksum {
                        problems.push(("C02", "content", "checksum_wrong", format!("offset {}: checksum does not match the payload", m.offset)));
                    }
                }
            }
            if m.state != MessageState::Available {
                problems.push(("C02", "content", "state", format!("offset {}: state {:?}", m.offset, m.state)));
            }
            if self.opts.check_timestamps {
                match mm.ts {
                    Some(t) if t != m.timestamp => problems.push(("C02", "content", "timestamp_changed", format!("offset {}: timestamp {} then {}", m.offset, t, m.timestamp))),
                    Some(_) => {}
                    None => {
                        mm.ts = Some(m.timestamp);
                        if !self.backward_jump && (m.timestamp < mm.ts_lo || m.timestamp > mm.ts_hi) {
                            problems.push(("C02", "content", "timestamp_outside_send_window", format!("offset {}: timestamp {} not within [{}, {}]", m.offset, m.timestamp, mm.ts_lo, mm.ts_hi)));
                        }
                    }
                }
            }
            for (prop, oracle, tag, detail) in problems {
                self.violate(prop, oracle, tag, format!("{site}: partition {sid}/{tid}/{p}: {detail}"));
            }
        }
    }

    async fn op_flush(&mut self, c: usize, stream: &IdRef, topic: &IdRef, partition: u32, fsync: bool) {
        if !self.session_ready(c) {
            return;
        }
        let fired_before = self.sim.inner.fs.borrow().fired.len();
        if self.opts.disk_faults {
            self.sim.arm_faults(true);
        }
        let client = self.client(c).unwrap();
        let result = client.flush_unsaved_buffer(&stream.to_identifier(), &topic.to_identifier(), partition, fsync).await;
        if self.opts.disk_faults {
            self.sim.settle().await;
            self.sim.arm_faults(false);
            if self.sim.inner.fs.borrow().fired.len() > fired_before {
                self.stats.probe("flush_hit_by_disk_fault");
                if let Some((sid, tid)) = self.model.topic_ids(stream, topic) {
                    self.resync_after_disk_fault(sid, tid, None).await;
                }
                return;
            }
        }
        if !self.perm_gate("flush_unsaved_buffer", result.is_ok(), result.as_ref().err()) {
            return;
        }
        let exists = self.model.topic(stream, topic).map(|t| t.partitions.contains_key(&partition)).unwrap_or(false);
        if exists && !ok(&result) {
            self.violate("C06", "valid_flush_fails", "error", format!("flush of {stream:?}/{topic:?}/{partition} failed: {:?}", result.err()));
        } else if ok(&result) {
            *self.stats.ops_ok.entry("flush").or_insert(0) += 1;
        }
    }

    async fn op_store_offset(&mut self, c: usize, stream: &IdRef, topic: &IdRef, partition: Option<u32>, who: &Who, offset: u64) {
        if !self.session_ready(c) {
            return;
        }
        if self.group_offset_request_unresolvable(c, stream, topic, partition, who) {
            return;
        }
        let consumer = match who {
            Who::Consumer(r) => Consumer::new(r.to_identifier()),
            Who::Group(r) => Consumer::group(r.to_identifier()),
        };
        let result = if matches!(who, Who::Consumer(_)) && self.route_http(c) {
            self.stats.probe("request_via_http");
            normalize_http(self.http_twin(c).unwrap().store_consumer_offset(&consumer, &stream.to_identifier(), &topic.to_identifier(), partition, offset).await)
        } else {
            self.client(c).unwrap().store_consumer_offset(&consumer, &stream.to_identifier(), &topic.to_identifier(), partition, offset).await
        };
        if !self.perm_gate("store_consumer_offset", result.is_ok(), result.as_ref().err()) {
            return;
        }
        let Some((sid, tid, p, is_group, key)) = self.resolve_offset_target(c, stream, topic, partition, who) else {
            if ok(&result) {
                self.violate("C07", "store_unknown_target", "accepted", format!("store offset for unknown target {stream:?}/{topic:?}/{partition:?} {who:?} accepted"));
            }
            return;
        };
        let current = self.model.streams[&sid].topics[&tid].partitions[&p].current_offset();
        if offset > current {
            if ok(&result) {
                self.violate("C07", "store_beyond_current_refused", "accepted", format!("store offset {offset} > current {current} on {sid}/{tid}/{p} accepted"));
                self.set_model_offset(sid, tid, p, is_group, key, offset);
            } else {
                self.stats.probe("store_beyond_current_refused");
            }
            return;
        }
        match result {
            Ok(()) => {
                *self.stats.ops_ok.entry("store_offset").or_insert(0) += 1;
                self.set_model_offset(sid, tid, p, is_group, key, offset);
            }
            Err(e) => self.violate("C07", "valid_store_fails", "error", format!("store offset {offset} on {sid}/{tid}/{p} {who:?} failed: {e:?}")),
        }
    }

    fn set_model_offset(&mut self, sid: u32, tid: u32, p: u32, is_group: bool, key: u32, offset: u64) {
        let pm = self.pm(sid, tid, p);
        if is_group {
            pm.group_offsets.insert(key, offset);
        } else {
            pm.consumer_offsets.insert(key, offset);
        }
    }

    /// (stream, topic, partition, is_group, key) of an offset operation with an explicit or defaulted partition.
    fn resolve_offset_target(&self, c: usize, stream: &IdRef, topic: &IdRef, partition: Option<u32>, who: &Who) -> Option<(u32, u32, u32, bool, u32)> {
        let (sid, tid) = self.model.topic_ids(stream, topic)?;
        let t = &self.model.streams[&sid].topics[&tid];
        match who {
            Who::Consumer(r) => {
                let p = partition.unwrap_or(1);
                t.partitions.contains_key(&p).then_some((sid, tid, p, false, consumer_key(r)))
            }
            Who::Group(g) => {
                let gid = Model::group_id(t, g)?;
                let p = match partition {
                    Some(p) => p,
                    // a member's request without a partition id means the partition its last poll was served from
                    None => *self.model.member_current.get(&(sid, tid, gid, self.model.sessions.get(c)?.client_id?))?,
                };
                t.partitions.contains_key(&p).then_some((sid, tid, p, true, gid))
            }
        }
    }

    /// An offset request as a group without a partition id is only sent when the harness knows which partition
    /// it refers to (the sender is a member whose last such poll was observed and nothing has rebalanced since).
    fn group_offset_request_unresolvable(&mut self, c: usize, stream: &IdRef, topic: &IdRef, partition: Option<u32>, who: &Who) -> bool {
        if matches!(who, Who::Group(_)) && partition.is_none() {
            if self.resolve_offset_target(c, stream, topic, partition, who).is_none() {
                self.stats.probe("group_offset_request_without_partition_skipped");
                return true;
            }
            self.stats.probe("group_offset_request_without_partition");
        }
        false
    }

    async fn op_get_offset(&mut self, c: usize, stream: &IdRef, topic: &IdRef, partition: Option<u32>, who: &Who) {
        if !self.session_ready(c) {
            return;
        }
        if self.group_offset_request_unresolvable(c, stream, topic, partition, who) {
            return;
        }
        let consumer = match who {
            Who::Consumer(r) => Consumer::new(r.to_identifier()),
            Who::Group(r) => Consumer::group(r.to_identifier()),
        };
        let result = if matches!(who, Who::Consumer(_)) && self.route_http(c) {
            self.stats.probe("request_via_http");
            normalize_http(self.http_twin(c).unwrap().get_consumer_offset(&consumer, &stream.to_identifier(), &topic.to_identifier(), partition).await)
        } else {
            self.client(c).unwrap().get_consumer_offset(&consumer, &stream.to_identifier(), &topic.to_identifier(), partition).await
        };
        if !self.perm_gate_found("get_consumer_offset", matches!(result, Ok(Some(_))), result.is_ok(), result.as_ref().err()) {
            return;
        }
        let Some((sid, tid, p, is_group, key)) = self.resolve_offset_target(c, stream, topic, partition, who) else {
            if let Ok(Some(info)) = &result {
                if partition.is_some() || matches!(who, Who::Consumer(_)) {
                    self.violate("C07", "get_unknown_target", "value", format!("get offset for unknown target returned {info:?}"));
                }
            }
            return;
        };
        let pm = &self.model.streams[&sid].topics[&tid].partitions[&p];
        let expected = if is_group { pm.group_offsets.get(&key).copied() } else { pm.consumer_offsets.get(&key).copied() };
        let other_map = if is_group { pm.consumer_offsets.get(&key).copied() } else { pm.group_offsets.get(&key).copied() };
        let current = pm.current_offset();
        match result {
            Ok(got) => {
                *self.stats.ops_ok.entry("get_offset").or_insert(0) += 1;
                let got_value = got.as_ref().map(|i| i.stored_offset);
                if got_value != expected {
                    let tag = if got_value == other_map && other_map.is_some() {
                        "value_of_other_kind_with_same_id"
                    } else if got_value.is_none() {
                        "stored_offset_invisible"
                    } else if expected.is_none() {
                        "phantom_offset"
                    } else {
                        "wrong_value"
                    };
                    self.violate("C07", "get_returns_last_stored", tag, format!("get offset {who:?} on {sid}/{tid}/{p}: got {got_value:?}, expected {expected:?} (other kind holds {other_map:?})"));
                }
                if let Some(info) = got {
                    if info.partition_id != p {
                        self.violate("C07", "get_partition_id", "wrong_partition", format!("asked {p} got {}", info.partition_id));
                    }
                    let uncertain = self.model.streams.get(&sid).and_then(|s| s.topics.get(&tid)).and_then(|t| t.partitions.get(&p)).map(|x| x.tainted).unwrap_or(true);
                    if info.current_offset != current && !uncertain {
                        self.violate("C01", "current_offset", "offset_info", format!("offset info of {sid}/{tid}/{p} reports current {} model {current}", info.current_offset));
                    }
                }
                if expected.is_some() && other_map.is_some() {
                    self.stats.probe("consumer_and_group_share_id");
                }
            }
            Err(e) => self.violate("C07", "valid_get_fails", "error", format!("get offset failed: {e:?}")),
        }
    }

    async fn op_delete_offset(&mut self, c: usize, stream: &IdRef, topic: &IdRef, partition: Option<u32>, who: &Who) {
        if !self.session_ready(c) {
            return;
        }
        if self.group_offset_request_unresolvable(c, stream, topic, partition, who) {
            return;
        }
        let consumer = match who {
            Who::Consumer(r) => Consumer::new(r.to_identifier()),
            Who::Group(r) => Consumer::group(r.to_identifier()),
        };
        let result = if matches!(who, Who::Consumer(_)) && self.route_http(c) {
            self.stats.probe("request_via_http");
            normalize_http(self.http_twin(c).unwrap().delete_consumer_offset(&consumer, &stream.to_identifier(), &topic.to_identifier(), partition).await)
        } else {
            self.client(c).unwrap().delete_consumer_offset(&consumer, &stream.to_identifier(), &topic.to_identifier(), partition).await
        };
        if !self.perm_gate("delete_consumer_offset", result.is_ok(), result.as_ref().err()) {
            return;
        }
        let Some((sid, tid, p, is_group, key)) = self.resolve_offset_target(c, stream, topic, partition, who) else {
            return;
        };
        let pm = self.pm(sid, tid, p);
        let had = if is_group { pm.group_offsets.contains_key(&key) } else { pm.consumer_offsets.contains_key(&key) };
        match (&result, had) {
            (Ok(()), true) => {
                if is_group {
                    pm.group_offsets.remove(&key);
                } else {
                    pm.consumer_offsets.remove(&key);
                }
                *self.stats.ops_ok.entry("delete_offset").or_insert(0) += 1;
            }
            (Ok(()), false) => {}
            (Err(e), true) => {
                let detail = format!("delete of stored offset {who:?} on {sid}/{tid}/{p} failed: {e:?}");
                self.violate("C07", "valid_delete_fails", "error", detail);
            }
            (Err(_), false) => {}
        }
    }

    // ------------------------------------------------------------------------------------------
    // simulator operations
    // ------------------------------------------------------------------------------------------

    async fn op_run_job(&mut self, job: Job) {
        if !self.world.is_up() {
            return;
        }
        match job {
            Job::Maintain => crate::harness_ret::maintain_pass(self).await,
            Job::Save if self.opts.disk_faults => {
                let fired_before = self.sim.inner.fs.borrow().fired.len();
                self.sim.arm_faults(true);
                self.world.run_job(job).await;
                self.sim.settle().await;
                self.sim.arm_faults(false);
                if self.sim.inner.fs.borrow().fired.len() > fired_before {
                    self.stats.probe("save_hit_by_disk_fault");
                    let topics: Vec<(u32, u32)> = self.model.streams.values().flat_map(|s| s.topics.keys().map(move |t| (s.id, *t))).collect();
                    for (sid, tid) in topics {
                        self.resync_after_disk_fault(sid, tid, None).await;
                    }
                }
            }
            _ => {
                self.world.run_job(job).await;
                if job == Job::VerifyHeartbeats || job == Job::CleanTokens {
                    crate::harness_cat::after_background_job(self, job).await;
                }
            }
        }
        self.sim.settle().await;
    }

    /// A send acknowledged right before a clean stop (nothing is allowed to settle in between).
    async fn op_send_then_restart(&mut self, stream: &IdRef, topic: &IdRef, partition: u32, msgs: &[MsgSpec], kind: StopKind) {
        if !self.world.is_up() || !self.session_ready(0) {
            return;
        }
        let Some((sid, tid)) = self.model.topic_ids(stream, topic) else { return };
        let Some(pm) = self.model.streams[&sid].topics[&tid].partitions.get(&partition) else { return };
        if pm.tainted || self.model.dedup || self.model.streams[&sid].topics[&tid].max_size.is_some() {
            return;
        }
        self.sim.settle().await;
        let mut messages: Vec<Message> = msgs.iter().map(|m| m.to_message()).collect();
        let lo = self.sim.now_micros();
        let seq0 = self.sim.steps();
        let sent = self.client(0).unwrap().send_messages(&stream.to_identifier(), &topic.to_identifier(), &Partitioning::partition_id(partition), &mut messages).await;
        let seq1 = self.sim.steps();
        let hi = self.sim.now_micros();
        if sent.is_err() {
            return;
        }
        self.model_append(sid, tid, partition, msgs, lo, hi, (seq0, seq1));
        self.stats.probe("send_then_restart_done");
        self.restart_inner(kind, false, false).await;
        if self.fatal {
            return;
        }
        // the acknowledged batch (and everything before it) is there
        let pm = self.model.streams[&sid].topics[&tid].partitions[&partition].clone();
        let from = pm.first_retained;
        let polled = self.client(0).unwrap().poll_messages(&IdRef::Num(sid).to_identifier(), &IdRef::Num(tid).to_identifier(), Some(partition), &Consumer::default(), &PollingStrategy::offset(from), pm.msgs.len() as u32 + 10, false).await;
        match polled {
            Ok(polled) => {
                let got: Vec<(u64, u128)> = polled.messages.iter().map(|m| (m.offset, m.id)).collect();
                let want: Vec<(u64, u128)> = pm.msgs.iter().enumerate().skip(from as usize).map(|(i, m)| (i as u64, m.id)).collect();
                let same = got.len() == want.len() && got.iter().zip(want.iter()).all(|(g, w)| g.0 == w.0 && (w.1 == 0 || g.1 == w.1));
                if !same {
                    let tag = if got.len() < want.len() { "acknowledged_send_lost" } else { "messages_altered" };
                    self.violate("C03", "restart_preserves_messages", tag, format!("partition {sid}/{tid}/{partition}: a send of {} messages was acknowledged right before a clean stop; after the restart it serves {} messages, {} were accepted (last offsets {:?} vs {:?})", msgs.len(), got.len(), want.len(), got.last(), want.last()));
                    self.mark_tainted(sid, tid);
                }
            }
            Err(e) => self.violate("C03", "restart_preserves_messages", "poll_error", format!("poll of {sid}/{tid}/{partition} after the restart failed: {e:?}")),
        }
    }

    async fn op_restart(&mut self, kind: StopKind, lose_indexes: bool) {
        self.restart_inner(kind, lose_indexes, true).await
    }

    async fn restart_inner(&mut self, kind: StopKind, lose_indexes: bool, quiesce: bool) {
        if !self.world.is_up() {
            return;
        }
        self.stats.restarts += 1;
        // always compared: a restart that changes what is served is reported under its own property,
        // and for every other check it marks the affected partitions so nothing is mis-attributed
        self.snapshot_horizon = None;
        let before = if quiesce { Some(crate::snapshot::take(self).await) } else { None };
        self.http0 = None;
        self.http_twins.clear();
        // drop client connections first: the server sees them close
        for c in 0..self.clients.len() {
            self.clients[c] = None;
            self.model.sessions[c] = MSession::default();
        }
        if quiesce {
            self.sim.settle().await;
        }
        if kind == StopKind::Kill {
            // "explicit flush of every partition" variant of a clean restart: flush, settle, kill
            self.flush_everything().await;
            self.sim.settle().await;
        }
        let stopped = self.world.stop(kind).await;
        if let Err(e) = stopped {
            self.violate("C03", "shutdown_ok", "shutdown_error", format!("graceful shutdown failed: {e:?}"));
        }
        self.check_panics("C03");
        if lose_indexes {
            self.remove_index_files();
        }
        let tree_before = crate::snapshot::dir_tree(&self.world.data_path());
        let started = self.world.start().await;
        // A server that does not come up again (error or panic during start-up) on what a fault-free history
        // left behind fails every property whose statement promises something "after a restart": reported
        // under the run's own property when it is one of those, under C03 (for whoever borrows it) otherwise.
        const PROMISE_SOMETHING_AFTER_RESTART: [&str; 11] = ["C01", "C02", "C03", "C04", "C05", "C07", "C10", "C14", "C16", "C18", "C19"];
        let owner: &'static str = PROMISE_SOMETHING_AFTER_RESTART.iter().copied().find(|p| self.opts.props.contains(*p)).unwrap_or("C03");
        self.check_panics(owner);
        if let Err(e) = started {
            self.violate(owner, "restart_ok", format!("init_error:{}", e.as_string()), format!("restart on the same directory failed: {e:?}"));
            self.stats.probe("restart_failed");
            self.fatal = true;
            return;
        }
        self.sim.settle().await;
        // membership of groups does not survive a restart (connections are gone)
        for s in self.model.streams.values_mut() {
            for t in s.topics.values_mut() {
                t.balanced_history.clear();
                for g in t.groups.values_mut() {
                    g.members.clear();
                }
            }
        }
        if self.connect_client(0, true).await.is_err() {
            // (under the run's own property where C10 is not being checked: nothing can be observed any more)
            let login_owner = if self.on("C10") { "C10" } else { owner };
            self.violate(login_owner, "root_login_after_restart", "login_failed", "root cannot log in after restart");
            self.fatal = true;
            return;
        }
        if let Some(before) = before {
            let after = crate::snapshot::take(self).await;
            crate::snapshot::compare(self, &before, &after, &tree_before);
        }
    }

    /// C19: data written under one key is never returned as valid content under another key.
    async fn op_restart_key_mismatch(&mut self, off: bool) {
        if !self.world.is_up() || !self.world.knobs.borrow().encryption {
            return;
        }
        self.stats.restarts += 1;
        self.snapshot_horizon = None;
        let before = crate::snapshot::take(self).await;
        for c in 0..self.clients.len() {
            self.clients[c] = None;
            self.model.sessions[c] = MSession::default();
        }
        self.sim.settle().await;
        let _ = self.world.stop(StopKind::GracefulDrained).await;
        let right_key = self.world.knobs.borrow().encryption_key.clone();
        {
            use base64::Engine;
            let mut knobs = self.world.knobs.borrow_mut();
            if off {
                knobs.encryption = false;
            } else {
                let other: Vec<u8> = (0..32u8).map(|i| i.wrapping_mul(7).wrapping_add(self.op_index as u8)).collect();
                knobs.encryption_key = base64::engine::general_purpose::STANDARD.encode(other);
            }
        }
        let started = self.world.start().await;
        for p in self.sim.take_panics() {
            let tag = panic_tag(&p);
            self.violate("C19", "key_mismatch_never_panics", format!("{tag}:{}", if off { "encryption_off" } else { "other_key" }), format!("start-up with {} panicked: {}", if off { "encryption switched off" } else { "another key" }, p.chars().take(160).collect::<String>()));
        }
        match started {
            Err(_) => self.stats.probe("key_mismatch_rejected_at_start"),
            Ok(()) => {
                self.stats.probe("key_mismatch_server_started");
                // whatever it serves, it must not be the content written under the right key
                if let Ok(client) = self.world.root_client().await {
                    let targets: Vec<(u32, u32, u32)> = self.model.streams.values().flat_map(|s| s.topics.values().flat_map(move |t| t.partitions.keys().map(move |p| (s.id, t.id, *p)))).collect();
                    for (sid, tid, p) in targets {
                        let polled = client.poll_messages(&IdRef::Num(sid).to_identifier(), &IdRef::Num(tid).to_identifier(), Some(p), &Consumer::default(), &PollingStrategy::offset(0), 1000, false).await;
                        match polled {
                            Ok(polled) if !polled.messages.is_empty() && !off => {
                                let clear = polled.messages.iter().filter(|m| m.payload.windows(10).any(|w| w == b"<<PAYLOAD:")).count();
                                self.violate("C19", "other_key_returns_no_content", if clear > 0 { "clear_content_under_other_key" } else { "undecryptable_record_delivered" }, format!("with another key partition {sid}/{tid}/{p} delivered {} messages ({clear} with the original content)", polled.messages.len()));
                            }
                            Ok(_) => {}
                            Err(_) => self.stats.probe("undecryptable_record_reported"),
                        }
                    }
                }
                for p in self.sim.take_panics() {
                    let tag = panic_tag(&p);
                    self.violate("C19", "key_mismatch_never_panics", format!("{tag}:poll"), format!("poll under a mismatching key panicked: {}", p.chars().take(160).collect::<String>()));
                }
                let _ = self.world.stop(StopKind::Kill).await;
            }
        }
        {
            let mut knobs = self.world.knobs.borrow_mut();
            knobs.encryption = true;
            knobs.encryption_key = right_key;
        }
        let tree_before = crate::snapshot::dir_tree(&self.world.data_path());
        if let Err(e) = self.world.start().await {
            self.violate("C19", "same_key_restores_everything", format!("init_error:{}", e.as_string()), format!("after a start attempt with a mismatching key, the right key no longer starts the server: {e:?}"));
            self.fatal = true;
            return;
        }
        self.sim.settle().await;
        for s in self.model.streams.values_mut() {
            for t in s.topics.values_mut() {
                t.balanced_history.clear();
                for g in t.groups.values_mut() {
                    g.members.clear();
                }
            }
        }
        if self.connect_client(0, true).await.is_err() {
            self.fatal = true;
            return;
        }
        let after = crate::snapshot::take(self).await;
        crate::snapshot::compare(self, &before, &after, &tree_before);
    }

    async fn flush_everything(&mut self) {
        if self.clients[0].is_none() && self.connect_client(0, true).await.is_err() {
            return;
        }
        let client = self.clients[0].as_ref().unwrap();
        let targets: Vec<(u32, u32, u32)> = self
            .model
            .streams
            .values()
            .flat_map(|s| s.topics.values().flat_map(move |t| t.partitions.keys().map(move |p| (s.id, t.id, *p))))
            .collect();
        for (s, t, p) in targets {
            let _ = client.flush_unsaved_buffer(&IdRef::Num(s).to_identifier(), &IdRef::Num(t).to_identifier(), p, true).await;
        }
    }

    fn remove_index_files(&mut self) {
        let root = self.world.data_path();
        let mut stack = vec![std::path::PathBuf::from(root)];
        while let Some(dir) = stack.pop() {
            let Ok(rd) = std::fs::read_dir(&dir) else { continue };
            for e in rd.flatten() {
                let p = e.path();
                if p.is_dir() {
                    stack.push(p);
                } else if p.extension().map(|x| x == "index").unwrap_or(false) {
                    let _ = std::fs::remove_file(&p);
                    self.stats.probe("index_file_removed_while_down");
                }
            }
        }
    }

    /// Full consistency audit: every partition is read completely and compared; counters compared.
    pub async fn audit(&mut self) {
        if !self.world.is_up() {
            return;
        }
        if self.client(0).is_none() && self.connect_client(0, true).await.is_err() {
            return;
        }
        self.stats.audits += 1;
        let targets: Vec<(u32, u32, u32)> = self
            .model
            .streams
            .values()
            .flat_map(|s| s.topics.values().flat_map(move |t| t.partitions.keys().map(move |p| (s.id, t.id, *p))))
            .collect();
        for (sid, tid, p) in targets {
            let pm = self.model.streams[&sid].topics[&tid].partitions[&p].clone();
            if pm.tainted {
                continue;
            }
            let from = pm.first_retained;
            let count = (pm.retained_count() + 5).min(100_000) as u32;
            let client = self.client(0).unwrap();
            let polled = client
                .poll_messages(&IdRef::Num(sid).to_identifier(), &IdRef::Num(tid).to_identifier(), Some(p), &Consumer::default(), &PollingStrategy::offset(from), count, false)
                .await;
            match polled {
                Ok(polled) => {
                    let expectation = expect_by_offset(&pm, from, count);
                    self.compare_poll(sid, tid, p, &expectation, &polled, "audit_full_read");
                    // C01: no duplicates, no gaps, in order
                    let offsets: Vec<u64> = polled.messages.iter().map(|m| m.offset).collect();
                    if offsets.windows(2).any(|w| w[1] <= w[0]) {
                        self.violate("C01", "full_read_unique_ordered", "repeat_or_disorder", format!("full read of {sid}/{tid}/{p}: {}", brief(&offsets)));
                    }
                    if self.model.dedup {
                        let mut seen = BTreeSet::new();
                        for m in &polled.messages {
                            if !seen.insert(m.id) {
                                self.violate("C18", "id_at_most_once", "duplicate_id_stored", format!("partition {sid}/{tid}/{p} stores id {} twice", m.id));
                            }
                        }
                    }
                }
                Err(e) => self.violate("C02", "poll_fails", "audit_error", format!("full read of {sid}/{tid}/{p} failed: {e:?}")),
            }
        }
        crate::harness_cat::audit_catalogue(self).await;
        self.scan_files_for_secrets();
    }

    /// C10 / C19: no password, raw token (and, with encryption on, no payload or journalled name) may
    /// appear in any file under the data directory — also not base64- or UTF-16-encoded.
    pub fn scan_files_for_secrets(&mut self) {
        if !(self.on("C10") || self.on("C19")) {
            return;
        }
        use base64::Engine;
        let mut needles: Vec<(Vec<u8>, &'static str, &'static str, String)> = Vec::new();
        if self.on("C10") {
            for secret in self.secrets.clone() {
                if secret.len() < 6 {
                    continue;
                }
                needles.push((secret.as_bytes().to_vec(), "C10", "secret_in_clear", format!("secret '{}…'", &secret[..4])));
                needles.push((base64::engine::general_purpose::STANDARD.encode(secret.as_bytes()).into_bytes(), "C10", "secret_base64", format!("base64 of secret '{}…'", &secret[..4])));
                let utf16: Vec<u8> = secret.encode_utf16().flat_map(|u| u.to_le_bytes()).collect();
                needles.push((utf16, "C10", "secret_utf16", format!("UTF-16 of secret '{}…'", &secret[..4])));
            }
        }
        if self.on("C19") && self.opts.encryption {
            needles.push((b"<<PAYLOAD:".to_vec(), "C19", "payload_in_clear", "a message payload marker".into()));
            for name in self.journalled_names.clone() {
                if name.len() >= 8 {
                    needles.push((name.as_bytes().to_vec(), "C19", "journalled_content_in_clear", format!("journalled name '{name}'")));
                }
            }
        }
        if needles.is_empty() {
            return;
        }
        let root = self.world.data_path();
        let mut stack = vec![std::path::PathBuf::from(&root)];
        let mut files = 0;
        while let Some(dir) = stack.pop() {
            let Ok(rd) = std::fs::read_dir(&dir) else { continue };
            for e in rd.flatten() {
                let p = e.path();
                if p.is_dir() {
                    stack.push(p);
                    continue;
                }
                let Ok(data) = std::fs::read(&p) else { continue };
                files += 1;
                for (needle, prop, tag, what) in &needles {
                    if needle.len() <= data.len() && data.windows(needle.len()).any(|w| w == &needle[..]) {
                        let rel = p.strip_prefix(&root).map(|x| x.display().to_string()).unwrap_or_default();
                        let class = if rel.starts_with("state") { "state" } else if rel.ends_with(".log") { "segment_log" } else { "other" };
                        self.violate(prop, "no_clear_text_in_files", format!("{tag}:{class}"), format!("{what} found in {rel}"));
                    }
                }
            }
        }
        if files > 0 {
            self.stats.probe("files_scanned_for_secrets");
        }
    }
}

pub fn op_client(op: &Op) -> Option<usize> {
    let v = serde_json::to_value(op).ok()?;
    let obj = v.as_object()?;
    let inner = obj.values().next()?;
    inner.get("c").and_then(|c| c.as_u64()).map(|c| c as usize)
}

pub fn clone_messages(m: &[iggy::models::messages::PolledMessage]) -> Vec<iggy::models::messages::PolledMessage> {
    m.iter()
        .map(|m| iggy::models::messages::PolledMessage {
            offset: m.offset,
            state: m.state,
            timestamp: m.timestamp,
            id: m.id,
            checksum: m.checksum,
            headers: m.headers.clone(),
            length: m.length,
            payload: m.payload.clone(),
        })
        .collect()
}

pub fn brief(v: &[u64]) -> String {
    if v.len() <= 12 {
        format!("{v:?}")
    } else {
        format!("[{}, {}, {}, .. {} more .., {}, {}]", v[0], v[1], v[2], v.len() - 5, v[v.len() - 2], v[v.len() - 1])
    }
}

pub fn panic_tag(p: &str) -> String {
    // location of the panic identifies it: "... @ file:line"
    match p.rsplit_once(" @ ") {
        Some((_, loc)) => {
            let loc = loc.trim();
            let file = loc.rsplit('/').next().unwrap_or(loc);
            format!("panic:{file}")
        }
        None => "panic".into(),
    }
}

pub fn expiry_of(e: &IggyExpiry) -> u64 {
    expiry_from_sdk(e)
}

pub fn max_size_of(m: &MaxTopicSize) -> Option<u64> {
    max_size_from_sdk(m)
}

pub fn compression_of(code: u8) -> CompressionAlgorithm {
    compression_from(code)
}
