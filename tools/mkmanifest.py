#!/usr/bin/env python3
"""Regenerates /verif/MANIFEST.json from the table below (kept in one place so it stays valid)."""
import json, subprocess, sys
ROOT = "/verif"
ids = [json.loads(l)["id"] for l in open(f"{ROOT}/properties.jsonl")]

CLAIMED = {
 # id: (category, technique, text, note, design_ref)
 "C01": ("exploration", "deterministic simulation: seeded histories vs. reference log model",
         "Seeded search over send/flush/save/purge/retention/restart histories and storage configurations; every offset the real server assigns (observed through the real SDK over the simulated transport) must equal the reference log's. Sampling evidence, not proof.",
         "trusts the simulator's executor/file shim and the reference model (sim/src/model.rs); polls at quiescent points", "4.C01"),
 "C02": ("exploration", "deterministic simulation: every poll compared with the model slice",
         "After every step of seeded histories polls of every kind are compared field by field with the reference slice; tier placement (cache, buffer, disk, several segments/batches, after reload) is forced by the configuration swarm.",
         "polls judged at quiescent points; messages of deleted segments may be served from the cache (statement silent)", "4.C02"),
 "C03": ("exploration", "deterministic simulation: snapshot equality across simulated restarts",
         "Real System::shutdown (or flush-all + kill), process-global reset, real System::init on the same directory at seeded history positions; full snapshot before == after and traffic continues against the unchanged model.",
         "graceful stop modelled per server/src/main.rs (runtime dropped right after shutdown, or after draining); process-death model", "4.C03"),
}

def level_note(i): return CLAIMED[i][3]
checks = []
for i in ids:
    if i in CLAIMED:
        cat, tech, text, note, ref = CLAIMED[i]
        checks.append({
            "property_id": i,
            "quick_cmd": f"./check {i} quick",
            "thorough_cmd": f"./check {i} thorough",
            "evidence_file": f"/verif/evidence/{i}.json",
            "replay_cmd_template": "./check replay {path}",
            "engine": "sim",
            "level_claimed": {"category": cat, "text": text, "design_ref": f"DESIGN.md {ref}"},
            "level_note": note,
            "technique": tech,
        })
hooks = subprocess.run(["git", "-C", "/repo", "log", "--format=%h %s", "--grep=^verif hook"], capture_output=True, text=True).stdout.strip().splitlines()
manifest = {
    "version": 1,
    "setup_cmd": "cd /verif/sim && CARGO_NET_OFFLINE=true cargo build --offline",
    "hooks": {
        "guard": "cargo feature iggy_verif (crates iggy and server; off by default)",
        "enable": "the harness package /verif/sim depends on /repo/server and /repo/sdk by path with features=[\"iggy_verif\"]; every ./check rebuilds it from /repo's working tree",
        "baseline_off_cmd": "cd /repo && cargo nextest run --workspace --no-fail-fast --test-threads 8 --offline",
        "source_commits": [h.split()[0] for h in hooks],
        "add_only": True,
    },
    "engines": [{"name": "sim", "path": "/verif/sim", "serves_properties": sorted(CLAIMED), "kind_free_text": "deterministic simulation with fault injection: seeded single-threaded executor, simulated clock/disk/network, reference model, seeded search, minimised replay files"}],
    "checks": checks,
    "not_applicable": [{"property_id": i, "reason": "not claimed yet: its scenario family is still under construction in this session (nothing is asserted about it)"} for i in ids if i not in CLAIMED],
    "notes": "Exit codes of every check: 0 held on everything explored (KNOWN-FINDING lines possible), 1 VIOLATION line printed, 2 harness/build error. VERIF_SEED selects the seed block; VERIF_SCALE scales the number of runs.",
}
json.dump(manifest, open(f"{ROOT}/MANIFEST.json", "w"), indent=1)
print("claimed:", sorted(CLAIMED))
