#!/usr/bin/env python3
"""Regenerates /verif/MANIFEST.json from the table below (kept in one place so it stays valid)."""
import json, subprocess
ROOT = "/verif"
ids = [json.loads(l)["id"] for l in open(f"{ROOT}/properties.jsonl")]
DST = "deterministic simulation with fault injection: "
CLAIMED = {
 "C01": ("exploration", DST + "seeded send/flush/save/purge/retention/restart histories vs. reference log model",
         "Seeded search over histories and storage configurations; every offset the real server assigns (observed through the real SDK over the simulated transport) must equal the reference log's, also after restarts, purges and retention passes.", "polls at quiescent points; 15% of the runs are the disk-fault arm (injected errors and torn writes on log/index files during sends, flushes and saves) judged by a narrow relaxation (DESIGN 9.2); sampling evidence", "4.C01"),
 "C02": ("exploration", DST + "every poll kind compared field by field with the model slice under a configuration swarm",
         "After every step of seeded histories, polls of every kind are compared with the reference slice; tier placement (cache, unsaved buffer, disk, several segments/batches, after reload) is forced by the configuration swarm.", "polls judged at quiescent points; messages of deleted segments may be served from the cache (statement silent); disk-fault arm as for C01", "4.C02"),
 "C03": ("exploration", DST + "snapshot equality across simulated clean restarts at seeded history positions",
         "Real System::shutdown (or flush-all + kill), process-global reset, real System::init on the same directory; full snapshot before == after, traffic continues against the unchanged model; lost index files; watchdog for restarts that never complete.", "graceful stop modelled per server/src/main.rs (runtime dropped right after shutdown, or after draining)", "4.C03"),
 "C04": ("fault_enumeration", DST + "crash image at every file-mutation boundary of a recorded run + torn variants of the last write, booted by the real recovery code",
         "For each seeded recorded run every boundary after a log/index/consumer-offset/state-log/segment-file mutation (and torn lengths of the last write) is rebuilt as a directory and booted; recovery oracle: start-up succeeds, no panic, gap-free prefix of accepted messages, completely written+indexed batches survive (wait mode), post-recovery sends continue, second restart agrees, consumer offsets are stored values. Enumeration within a run, sampling over runs.", "process-death model (completed writes survive); deferred tokio write completion not modelled (inline writes)", "4.C04"),
 "C05": ("exploration", DST + "catalogue command histories with restarts; dump before == after",
         "Administrative histories (auto/explicit ids, by number/name, delete+re-create, users, permissions, tokens, groups) through the binary protocol with clean restarts; catalogue dump, messages and directory tree compared across each restart.", "binary protocol for every connection; in 30% of the runs half of the administrator's catalogue commands go through the real SDK HttpClient and the real axum router in-process (DESIGN 9.2)", "4.C05"),
 "C06": ("exploration", DST + "sequential-map refinement after every valid/invalid catalogue command",
         "Every response of every catalogue command is predicted by a sequential map model; failed commands change nothing; deletes cascade; no handler panic; periodic full audits of every listing and entity by id and by name.", "binary protocol and HTTP arm as for C05; 10% of the runs inject errors on the state journal (open known finding @journal_fault, DESIGN 10)", "4.C06"),
 "C07": ("exploration", DST + "consumer-offset histories over consumer x group x partition identities vs. map model",
         "store/get/delete/poll-next/auto-commit/purge/group-deletion/restart with identities chosen so that a consumer and a group share a numeric id; a group member's requests without a partition id are resolved to the partition its last poll was served from and follow that poll at once; crash durability of offset files is part of C04.", "named consumers resolved with the same hash the server uses", "4.C07"),
 "C08": ("exploration", DST + "join/leave/disconnect/heartbeat-expiry/partition add+remove with several connections; assignment invariants and group-wide exactly-once",
         "After every membership or partition-count event the assignment reported by get_consumer_group is checked (exclusive, complete, even); member polls are served from their share in rotation; next+auto-commit slices equal the model (no repeat, no hole).", "heartbeat expiry driven by the simulated clock and the real VerifyHeartbeatsExecutor", "4.C08"),
 "C09": ("exploration", DST + "sessions x users x swarm-generated permission records, updates interleaved with requests, unauthenticated raw requests, rule-level probes on the real Permissioner",
         "No request is served without authentication or without a rule of the documented hierarchy granting it (permissive reading as upper bound), root is protected, permission changes are in force for the next request (revocation arm: demotions followed at once by requests on the user's open connections), rule evaluation never panics and is monotone (checked on the real Permissioner for record/superset pairs).", "the converse (every documented grant is honoured) is counted, not demanded: the statement is one-directional; record space sampled", "4.C09"),
 "C10": ("exploration", DST + "credential life-cycle histories with clock jumps and restarts; byte scan of every file for secrets",
         "Login outcomes (password, personal access tokens: right/wrong/stale/expired/other user's/deleted) follow a validity model before and after restarts; after every audit all files are scanned for every password and raw token (plain, base64, UTF-16).", "HTTP arm (30% of runs): root logs in over HTTP with its current password; tokens never issued, tampered or revoked by logout must be refused; JWT expiry/refresh not simulated", "4.C10"),
 "C11": ("exploration", DST + "concurrent journalling under I/O-granular seeded schedules with injected append failures, then every byte flip / truncation / entry permutation of the harvested journal through the real loader",
         "(a) 2-4 clients issue journalled commands concurrently (purge under the shared lock), with and without injected open/write/fsync failures on the state log; the journal must load with consecutive indices and the server must start from it. (b) exhaustive single-byte mutations, truncation lengths and entry permutations of small journals (sampled for large ones): the loader reports them or returns a prefix only for the loss of a whole suffix; never a panic, never another history, and never a single allocation request above 64 MiB while a tampered journal loads (allocation-size probe in the process allocator: a failed allocation aborts).", "the journals are those a short concurrent workload produces (a few KiB); commands are the journalled kinds the workload issues (create/delete/update/purge of streams, topics, users)", "4.C11"),
 "C12": ("exploration", DST + "N producers + M pollers + flusher + saver + evictor on one partition under seeded schedules; history predicates",
         "Batch-contiguous interleaving, per-producer order, nothing lost/twice, every poll a contiguous run equal to the final log, no partial batch visible, acknowledged-under-wait implies visible (event sequence numbers).", "in 40% of the runs file writes are handed over and completed later by a simulator-scheduled task, as tokio's File does (hook H11); lock acquisitions are scheduling points (hook H10)", "4.C12"),
 "C13": ("exploration", DST + "every exchange real SDK encoder -> simulated byte stream -> real server decoder/handler -> real SDK decoder compared with the model under a value swarm; malformed frames from a raw connection",
         "All model-equality oracles are wire-agreement oracles under the C13 swarm (boundary name lengths, empty/absent optionals, header kinds, fragmenting pipe capacities); garbage/truncated/mutated frames and mid-frame closes on a second connection must leave the catalogue, logs and other connections untouched (judged by the audits that follow).", "the context-free codec round trip over all values is sampled, not enumerated (DESIGN 6); HTTP/JSON driven for the administrator's catalogue commands in 30% of the runs", "4.C13"),
 "C14": ("exploration", DST + "expiring topics, clock jumps on both sides of the expiry, maintenance passes, expiry updates, restarts",
         "After each real maintenance pass the vanished offsets must be whole closed segments whose newest message was expired at pass time (or legal size clean-up); open segments and never-expiring topics lose nothing; current offset unchanged; traffic and restarts continue against the model.", "segment boundaries before a pass are read through the introspection hook H9", "4.C14"),
 "C15": ("exploration", DST + "size-limited topics, delete-oldest on/off, limit updates, maintenance passes",
         "Sends at/above the limit (as reported by the server itself) with deletion disabled are refused with TopicFull and store nothing; otherwise accepted; size clean-up removes at most the oldest closed segment per partition; limits below one segment are rejected on create and update. The size figure the limit is compared with is itself checked (C16's oracles run inside C15's scenarios: model ground truth, sum hierarchy, equality across restarts), with server-side encryption in a quarter of the runs.", "", "4.C15"),
 "C16": ("exploration", DST + "reported counts/sizes vs. ground truth from the model after every step, sum hierarchy, restart invariance",
         "get_topic/get_stream/get_topics figures equal the retained-message counts of the model and the sums over children; identical across restarts (byte sizes compared when nothing is buffered); zero after purge.", "get_stats counts are compared when a run issues it (sysinfo is slow)", "4.C16"),
 "C17": ("exploration", DST + "balanced / partition-id / key sends interleaved with partition add/remove; where each unique message lands",
         "Explicit partition: exactly there or refused with nothing stored; same key and count: same existing partition; balanced sends rotate evenly over windows starting at a count change; one send lands in one partition.", "the hash function itself is not re-implemented", "4.C17"),
 "C18": ("exploration", DST + "id repetition patterns across batches, persists and restarts with dedup on/off",
         "First occurrence kept, repeats dropped without consuming an offset (model + C01 oracles), distinct ids never dropped, nothing dropped with dedup off; id set rebuilt after restarts.", "runs stay inside the dedup TTL/capacity (capacity 0 = unbounded and 10^6 are both drawn); ids whose only copy was purged or deleted by retention are not sent again (statement silent)", "4.C18"),
 "C19": ("exploration", DST + "encryption on: byte scan of all files, lossless reads, restarts with same / other / no key",
         "With encryption on no payload marker and no journalled name appears in any file; polls return what was sent; a start with another key (or encryption off) is rejected or serves nothing as content, never panics; the right key then restores everything.", "", "4.C19"),
 "C20": ("exploration", DST + "real IggyClient/IggyProducer/IggyConsumer (background tasks scheduled by the simulator) against the simulated server",
         "Every produced message is found exactly where it was addressed (all send methods incl. send_to), the consumer yields +1 offsets per instance, commits never exceed what was handed out, a re-created consumer resumes right after the committed offset, nothing is lost in commit-on-consumption modes.", "AutoCommit::Interval/IntervalOrWhen is left out (its committer task never ends, runs do not reach quiescence); After(..) modes are committed by the scenario like consumer_ext would", "4.C20"),
}
checks = []
for i in ids:
    cat, tech, text, note, ref = CLAIMED[i]
    checks.append({
        "property_id": i,
        "quick_cmd": f"./check {i} quick",
        "thorough_cmd": f"./check {i} thorough",
        "evidence_file": f"/verif/evidence/{i}.json",
        "replay_cmd_template": "./check replay {path}",
        "engine": "sim",
        "level_claimed": {"category": cat, "text": text, "design_ref": f"DESIGN.md {ref}"},
        "level_note": (note + "; " if note else "") + "trusted base: the simulator (sim/src/rt.rs), the file/transport shims behind feature iggy_verif, the reference model (sim/src/model.rs); sampling evidence, not proof",
        "technique": tech,
    })
hooks = subprocess.run(["git", "-C", "/repo", "log", "--format=%h", "--grep=^verif hook"], capture_output=True, text=True).stdout.split()
manifest = {
    "version": 1,
    "setup_cmd": "cd /verif && ./check determinism 40",
    "hooks": {
        "guard": "cargo feature iggy_verif (crates iggy and server; off by default)",
        "enable": "the harness package /verif/sim depends on /repo/server and /repo/sdk by path with features=[\"iggy_verif\"] (server also with its own pre-existing feature disable-mimalloc, so that the harness can put an allocation-size probe in front of the system allocator); every ./check rebuilds it from /repo's working tree",
        "baseline_off_cmd": "cd /repo && cargo nextest run --workspace --no-fail-fast --test-threads 8 --offline",
        "source_commits": hooks,
        "add_only": True,
    },
    "engines": [{"name": "sim", "path": "/verif/sim", "serves_properties": ids, "kind_free_text": "deterministic simulation with fault injection: seeded single-threaded executor over the real server and SDK code, simulated clock/disk/network, reference model, seeded search, minimised replay files, determinism proof"}],
    "checks": checks,
    "not_applicable": [],
    "notes": "Exit codes of every check: 0 held on everything explored (KNOWN-FINDING lines for the open entries of known_findings.json), 1 VIOLATION line printed, 2 harness/build error. VERIF_SEED selects the seed block, VERIF_SCALE scales the number of runs. setup_cmd builds the harness and runs the determinism proof (every seed twice in different processes).",
}
json.dump(manifest, open(f"{ROOT}/MANIFEST.json", "w"), indent=1)
print("claimed:", len(checks))
