#!/bin/bash
# Applies every seeded change of /verif/seeded to /repo in turn, runs the quick check of its property and
# undoes it: prints one line per change (CAUGHT = the check exits 1 with a VIOLATION line).
# Usage: tools/seeded_run.sh [id ...]        (never leaves /repo modified; refuses to start on a dirty /repo)
# Inside `vp run --with-repo` it works on the run's snapshots ($VP_RUN_REPO and the snapshot of /verif) instead.
REPO=${VP_RUN_REPO:-/repo}
VERIF=$(cd "$(dirname "$0")/.." && pwd)
cd "$VERIF" || exit 2
if [ -n "${VP_RUN_REPO:-}" ]; then sed -i "s#\"/repo/#\"$VP_RUN_REPO/#" sim/Cargo.toml; fi
if [ -n "$(git -C "$REPO" status --porcelain)" ]; then echo "$REPO is not clean"; exit 2; fi
ids=("$@"); [ ${#ids[@]} -eq 0 ] && ids=($(ls -d seeded/*/ | xargs -n1 basename))
for id in "${ids[@]}"; do
  patch=$VERIF/seeded/$id/patch.diff; [ -f $VERIF/seeded/$id/patch.rebased.diff ] && patch=$VERIF/seeded/$id/patch.rebased.diff
  prop=$(python3 -c "import json;print(json.load(open('$VERIF/seeded/$id/meta.json'))['property'])")
  if ! git -C "$REPO" apply "$patch" 2>/dev/null; then echo "$id: patch does not apply"; continue; fi
  out=$(VERIF_REPLAY_DIR=/dev/shm/seeded-replays ./check "$prop" quick 2>&1); code=$?
  git -C "$REPO" checkout -- .
  n=$(echo "$out" | grep -c "^VIOLATION property=$prop")
  first=$(echo "$out" | grep "^# violation" | head -1 | cut -c1-160)
  if [ $code -eq 1 ] && [ "$n" -gt 0 ]; then echo "$id: CAUGHT by ./check $prop quick ($n VIOLATION lines) $first"; else echo "$id: MISSED by ./check $prop quick (exit $code)"; fi
done
rm -rf /dev/shm/seeded-replays
