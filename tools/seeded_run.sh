#!/bin/bash
# Applies every seeded change of /verif/seeded to /repo in turn, runs the quick check of its property and
# undoes it: prints one line per change (CAUGHT = the check exits 1 with a VIOLATION line).
# Usage: tools/seeded_run.sh [id ...]        (never leaves /repo modified; refuses to start on a dirty /repo)
cd /verif || exit 2
if [ -n "$(git -C /repo status --porcelain)" ]; then echo "/repo is not clean"; exit 2; fi
ids=("$@"); [ ${#ids[@]} -eq 0 ] && ids=($(ls -d seeded/*/ | xargs -n1 basename))
for id in "${ids[@]}"; do
  patch=/verif/seeded/$id/patch.diff; [ -f /verif/seeded/$id/patch.rebased.diff ] && patch=/verif/seeded/$id/patch.rebased.diff
  prop=$(python3 -c "import json;print(json.load(open('/verif/seeded/$id/meta.json'))['property'])")
  if ! git -C /repo apply "$patch" 2>/dev/null; then echo "$id: patch does not apply"; continue; fi
  out=$(VERIF_REPLAY_DIR=/dev/shm/seeded-replays ./check "$prop" quick 2>&1); code=$?
  git -C /repo checkout -- .
  n=$(echo "$out" | grep -c "^VIOLATION property=$prop")
  first=$(echo "$out" | grep "^# violation" | head -1 | cut -c1-160)
  if [ $code -eq 1 ] && [ "$n" -gt 0 ]; then echo "$id: CAUGHT by ./check $prop quick ($n VIOLATION lines) $first"; else echo "$id: MISSED by ./check $prop quick (exit $code)"; fi
done
rm -rf /dev/shm/seeded-replays
