#!/usr/bin/env python3
"""Compare a nextest junit.xml of the pinned suite (guard off) with /root/.vp/BASELINE.json:
prints every stable_pass test that did not pass. Exit 0 if none."""
import ast, json, sys, xml.etree.ElementTree as ET
junit = sys.argv[1]
base = json.load(open('/root/.vp/BASELINE.json'))
def lst(v):
    return v if isinstance(v, list) else ast.literal_eval(v)
stable = set(lst(base['stable_pass']))
passed, failed = set(), set()
for suite in ET.parse(junit).getroot().iter('testsuite'):
    for case in suite.iter('testcase'):
        name = f"{suite.get('name')}::{case.get('name')}"
        bad = any(child.tag in ('failure', 'error') for child in case)
        (failed if bad else passed).add(name)
missing = sorted(t for t in stable if t not in passed)
print(f"passed={len(passed)} failed={len(failed)} stable_pass={len(stable)} stable_not_passed={len(missing)}")
for t in missing:
    print("  NOT PASSED:", t, "(failed)" if t in failed else "(not run)")
sys.exit(1 if missing else 0)
